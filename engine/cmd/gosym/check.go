package main

// `gosym check <Cnn> <quick|thorough>`: runs every harness registered for a
// property in /verif/checks.json on /repo's current working tree, confirms
// violations by replay, validates a sample of passing paths natively,
// cross-checks a sample of obligations with other solvers and writes the
// evidence file.

import (
	"bytes"
	"context"
	"encoding/json"
	"fmt"
	"math/rand"
	"os"
	"os/exec"
	"path/filepath"
	"sort"
	"strconv"
	"strings"
	"time"

	"verif/engine/gosym"
)

type HarnessSpec struct {
	Entry    string         `json:"entry"`
	Quick    map[string]int `json:"quick"`
	Thorough map[string]int `json:"thorough"`
	Threads  bool           `json:"threads"`
	NoNative bool           `json:"no_native"` // native replay impossible (schedule / map order dependent)
	Note     string         `json:"note"`
}

type PropSpec struct {
	Pkgs        []string      `json:"pkgs"`
	Harnesses   []HarnessSpec `json:"harnesses"`
	Assumptions []string      `json:"assumptions"`
	InitPkgs    []string      `json:"init_pkgs"`
	NoopPkgs    []string      `json:"noop_pkgs"`
	Level       string        `json:"level"`
}

type KnownFile struct {
	Findings []gosym.KnownFinding `json:"findings"`
	Fixed    []string             `json:"fixed"`
}

var verifRoot = func() string {
	if r := os.Getenv("VERIF_ROOT"); r != "" {
		return r
	}
	return "/verif"
}()

func envInt(name string, def int) int {
	if s := os.Getenv(name); s != "" {
		if n, err := strconv.Atoi(s); err == nil {
			return n
		}
	}
	return def
}

func checkMain(args []string) int {
	if len(args) < 2 {
		fmt.Println("usage: gosym check <Cnn> <quick|thorough> [--only entry]")
		return 3
	}
	prop, tier := args[0], args[1]
	only := ""
	for i := 2; i < len(args)-1; i++ {
		if args[i] == "--only" {
			only = args[i+1]
		}
	}
	if t := os.Getenv("VERIF_TIER"); t == "quick" || t == "thorough" {
		tier = t
	}
	seed := envInt("VERIF_SEED", 1)
	repo := "/repo"
	if r := os.Getenv("VERIF_REPO"); r != "" {
		repo = r
	}
	t0 := time.Now()

	var specs map[string]PropSpec
	if err := readJSON(filepath.Join(verifRoot, "checks.json"), &specs); err != nil {
		fmt.Println("HARNESS-BROKEN cannot read checks.json:", err)
		return 3
	}
	spec, ok := specs[prop]
	if !ok {
		fmt.Println("HARNESS-BROKEN no check registered for", prop)
		return 3
	}
	var known KnownFile
	readJSON(filepath.Join(verifRoot, "known_findings.json"), &known)

	outDir := filepath.Join(verifRoot, "out", prop)
	os.RemoveAll(outDir)
	os.MkdirAll(outDir, 0o755)

	ov, err := gosym.Overlay(repo, filepath.Join(verifRoot, "harness"))
	if err != nil {
		fmt.Println("HARNESS-BROKEN overlay:", err)
		return 3
	}
	tl := time.Now()
	// A change to the tree may rename or re-type something a harness file uses.  The harness
	// files that no longer type-check are left out (with everything that depended on them) and
	// the others still run; the entries lost are reported as NO-VERDICT.
	dropped := map[string]bool{}
	var p *gosym.Program
	for round := 0; ; round++ {
		p, _, err = gosym.Load(repo, ov, spec.Pkgs)
		if err == nil {
			break
		}
		var bad []string
		for f := range ov {
			if strings.Contains(filepath.Base(f), "zz_verif") && strings.Contains(err.Error(), f+":") {
				bad = append(bad, f)
			}
		}
		if len(bad) == 0 || round >= 5 {
			fmt.Println("HARNESS-BROKEN load failed (the tree does not type-check with the harness):", err)
			writeEvidence(prop, tier, seed, nil, spec, nil, time.Since(t0), 0, []string{"load failed: " + err.Error()}, 0, nil)
			return 3
		}
		sort.Strings(bad)
		for _, f := range bad {
			delete(ov, f)
			dropped[f] = true
			fmt.Println("HARNESS-PARTIAL: left out", f, "(it does not type-check against this tree)")
		}
	}
	loadTime := time.Since(tl)

	workers := envInt("VERIF_WORKERS", 14)
	var results []*gosym.Result
	var newViol []gosym.Violation
	var inconclusive []string
	knownHits := map[int]int{}
	exit := 0
	native := newNativeRunner(repo, outDir, p)
	native.dropped = dropped
	defer native.cleanup()
	validated := 0
	validationMismatch := 0

	seenEntry := map[string]int{}
	for _, h := range spec.Harnesses {
		if only != "" && h.Entry != only {
			continue
		}
		fn := p.FindFunc(h.Entry)
		if fn == nil {
			if len(dropped) > 0 {
				inconclusive = append(inconclusive, h.Entry+": its harness file does not type-check against this tree")
				continue
			}
			fmt.Println("HARNESS-BROKEN entry not found:", h.Entry)
			return 3
		}
		params := map[string]int{}
		for k, v := range h.Quick {
			params[k] = v
		}
		if tier == "thorough" {
			for k, v := range h.Thorough {
				params[k] = v
			}
		}
		seenEntry[h.Entry]++
		if params["skip"] == 1 {
			// a configuration registered for the other tier only
			continue
		}
		cfg := gosym.Config{Entry: h.Entry, Workers: workers, Params: params, Preempt: -1, KeepScripts: 6,
			InitPkgs: map[string]bool{}, NoopPkgs: spec.NoopPkgs}
		if tier == "thorough" {
			cfg.KeepScripts = 40
			cfg.TimeoutMs = 60000
		}
		if v, ok := params["max_paths"]; ok {
			cfg.MaxPaths = v
		}
		if v, ok := params["max_decisions"]; ok {
			cfg.MaxDecisions = v
		}
		if v, ok := params["max_steps"]; ok {
			cfg.MaxSteps = v
		}
		if v, ok := params["preempt"]; ok {
			cfg.Preempt = v
		}
		for _, ip := range spec.InitPkgs {
			cfg.InitPkgs[ip] = true
		}
		for _, k := range known.Findings {
			if k.Property == prop {
				cfg.Known = append(cfg.Known, k)
			}
		}
		res := gosym.Explore(p, fn, cfg)
		results = append(results, res)
		fmt.Printf("%s %s: paths=%d steps=%d obligations=%d discharged=%d solver_calls=%d solver_time=%.1fs wall=%.1fs outcomes=%v\n",
			prop, h.Entry, res.Paths, res.Steps, res.Obligations, res.Discharged, res.SolverCalls, res.SolverTime.Seconds(), res.Wall.Seconds(), res.Outcomes)
		for k, n := range res.Inconclusive {
			inconclusive = append(inconclusive, fmt.Sprintf("%s: %s (x%d)", h.Entry, k, n))
		}
		for _, e := range res.SolverErrors {
			inconclusive = append(inconclusive, h.Entry+": solver error: "+e)
		}
		if res.Paths == 0 || res.Outcomes["done"]+res.Outcomes["blocked"] == 0 {
			inconclusive = append(inconclusive, h.Entry+": VACUOUS no path completed")
		}
		if res.Reached["end"] == 0 {
			inconclusive = append(inconclusive, h.Entry+": VACUOUS reachability witness 'end' not reached")
		}
		for i, k := range cfg.Known {
			if n := res.KnownHits[fmt.Sprint(i)]; n > 0 {
				for gi, g := range known.Findings {
					if g == k {
						knownHits[gi] += n
					}
				}
			}
		}
		// confirm violations
		for vi, v := range res.Violations {
			cexName := fmt.Sprintf("cex-%s-%d.json", h.Entry, vi)
			if k := seenEntry[h.Entry]; k > 1 {
				// the same entry registered with a second set of parameters
				cexName = fmt.Sprintf("cex-%s.%d-%d.json", h.Entry, k, vi)
			}
			cex := filepath.Join(outDir, cexName)
			writeCex(cex, h.Entry, params, v)
			conf := ""
			if !h.Threads && !h.NoNative && !usesEngineOnlyChoices(v) {
				out, err := native.run(fn, cex)
				if err != nil {
					conf = "native replay failed to run: " + err.Error()
				} else if matchesViolation(out, v) {
					conf = "native"
				} else {
					conf = "native replay did not reproduce (got " + out.Outcome + ")"
				}
			}
			if strings.HasPrefix(conf, "native replay did not reproduce") {
				// the harness is natively replayable and the real code does not show the
				// violation: the encoding or a model is wrong, not the code - no verdict
				conf = "UNCONFIRMED: " + conf
			} else if conf != "native" {
				// concrete re-execution in the engine with the model's values and choices
				ok, why := gosym.ConcreteReplay(p, fn, cfg, v)
				if ok {
					if conf == "" {
						conf = "engine-concrete"
					} else {
						conf = "engine-concrete (" + conf + ")"
					}
				} else {
					conf = "UNCONFIRMED: " + why + " " + conf
				}
			}
			v.Confirmed = conf
			res.Violations[vi] = v
			if strings.HasPrefix(conf, "UNCONFIRMED") {
				inconclusive = append(inconclusive, fmt.Sprintf("%s: UNCONFIRMED violation of %s: %s", h.Entry, v.Tag, conf))
				continue
			}
			newViol = append(newViol, v)
			fmt.Printf("VIOLATION property=%s replay=%s\n", prop, cex)
			fmt.Printf("  harness=%s assertion=%s %s confirmed=%s\n  values=%s\n  at=%v\n", h.Entry, v.Tag, v.Detail, conf, valuesText(v.Values), v.Stack)
			exit = 1
		}
		// translator validation on passing paths
		if !h.Threads && !h.NoNative && len(res.Validation) > 0 {
			rng := rand.New(rand.NewSource(int64(seed)))
			idx := rng.Perm(len(res.Validation))
			n := 3
			if tier == "thorough" {
				n = 12
			}
			if n > len(idx) {
				n = len(idx)
			}
			for _, i := range idx[:n] {
				s := res.Validation[i]
				cex := filepath.Join(outDir, fmt.Sprintf("wit-%s-%d.json", h.Entry, i))
				writeCex(cex, h.Entry, params, gosym.Violation{Harness: h.Entry, Values: s.Values})
				out, err := native.run(fn, cex)
				if err != nil {
					inconclusive = append(inconclusive, h.Entry+": translator validation could not run: "+err.Error())
					break
				}
				if out.Outcome != "ok" || !sameObs(out.Obs, s.Observed) {
					validationMismatch++
					inconclusive = append(inconclusive, fmt.Sprintf("%s: TRANSLATOR-MISMATCH on a passing path: native outcome=%s obs=%v engine obs=%v values=%s", h.Entry, out.Outcome, out.Obs, s.Observed, valuesText(s.Values)))
				} else {
					validated++
				}
			}
		}
	}

	// known findings that still occur
	for gi, g := range known.Findings {
		if g.Property == prop && knownHits[gi] > 0 {
			fmt.Printf("KNOWN-FINDING: property=%s %s [harness=%s assertion=%s class=%s paths=%d]\n", prop, g.What, g.Harness, g.AssertTag, g.Class, knownHits[gi])
		}
	}

	// cross-solver check of a sample of obligations
	cross, disagreements, crossNotes := crossCheck(results, outDir, tier, seed)
	for _, d := range disagreements {
		inconclusive = append(inconclusive, "SOLVER-DISAGREEMENT "+d)
	}

	sort.Strings(inconclusive)
	if exit == 0 && len(inconclusive) > 0 {
		exit = 3
	}
	for _, s := range inconclusive {
		fmt.Println("NO-VERDICT:", s)
	}
	writeEvidence(prop, tier, seed, results, spec, newViol, time.Since(t0), validated, inconclusive, cross, append(crossNotes, fmt.Sprintf("load %.1fs", loadTime.Seconds())))
	if exit == 0 {
		fmt.Printf("%s %s: PASS within bounds (%.1fs)\n", prop, tier, time.Since(t0).Seconds())
	}
	_ = validationMismatch
	return exit
}

func usesEngineOnlyChoices(v gosym.Violation) bool {
	for _, d := range v.Decisions {
		switch d.Kind {
		case "sched", "select", "maprev", "mapperm", "maprot":
			if d.Choice != 0 {
				return true
			}
		}
	}
	return false
}

func valuesText(vs []gosym.NondetVal) string {
	var parts []string
	for _, v := range vs {
		if v.Sort == "String" {
			parts = append(parts, fmt.Sprintf("%s=%q", v.Tag, v.Value))
		} else {
			parts = append(parts, fmt.Sprintf("%s=%s", v.Tag, v.Value))
		}
	}
	return strings.Join(parts, " ")
}

func readJSON(path string, v any) error {
	b, err := os.ReadFile(path)
	if err != nil {
		return err
	}
	return json.Unmarshal(b, v)
}

func writeCex(path, harness string, params map[string]int, v gosym.Violation) {
	type cex struct {
		Harness   string            `json:"harness"`
		Values    []gosym.NondetVal `json:"values"`
		Params    map[string]int    `json:"params"`
		Tag       string            `json:"tag,omitempty"`
		Detail    string            `json:"detail,omitempty"`
		Decisions any               `json:"decisions,omitempty"`
		Stack     []string          `json:"stack,omitempty"`
		Tolerate  []string          `json:"tolerate,omitempty"`
	}
	b, _ := json.MarshalIndent(cex{Harness: harness, Values: v.Values, Params: params, Tag: v.Tag, Detail: v.Detail, Decisions: v.Decisions, Stack: v.Stack, Tolerate: v.Tolerate}, "", " ")
	os.WriteFile(path, b, 0o644)
}

func sameObs(native map[string]string, engine map[string]string) bool {
	for k, v := range engine {
		if nv, ok := native[k]; !ok || nv != v {
			return false
		}
	}
	return true
}

type nativeOut struct {
	Outcome string
	Obs     map[string]string
	Failed  []string
	Raw     string
}

func matchesViolation(out nativeOut, v gosym.Violation) bool {
	if v.Tag == "panic" {
		return strings.HasPrefix(out.Outcome, "panic:")
	}
	return out.Outcome == "assert:"+v.Tag
}

// ---------------------------------------------------------------------------
// cross-solver checks

func crossCheck(results []*gosym.Result, outDir, tier string, seed int) (int, []string, []string) {
	type job struct {
		script, verdict, name string
	}
	var jobs []job
	for _, r := range results {
		for i, s := range r.Scripts {
			jobs = append(jobs, job{s, r.ScriptVerdict[i], fmt.Sprintf("%s-%d", r.Harness, i)})
		}
	}
	if len(jobs) == 0 {
		return 0, nil, []string{"no symbolic obligation scripts to cross-check"}
	}
	rng := rand.New(rand.NewSource(int64(seed) + 7))
	rng.Shuffle(len(jobs), func(i, j int) { jobs[i], jobs[j] = jobs[j], jobs[i] })
	n := 4
	if tier == "thorough" {
		n = 60
	}
	if n > len(jobs) {
		n = len(jobs)
	}
	solvers := [][]string{{"z3-new", "-T:30"}, {"cvc5", "--strings-exp", "--tlimit=30000"}}
	checked := 0
	var dis, notes []string
	unknowns := 0
	for _, j := range jobs[:n] {
		path := filepath.Join(outDir, "obl-"+j.name+".smt2")
		os.WriteFile(path, []byte("(set-logic ALL)\n"+j.script), 0o644)
		for _, sv := range solvers {
			if _, err := exec.LookPath(sv[0]); err != nil {
				continue
			}
			ctx, cancel := context.WithTimeout(context.Background(), 40*time.Second)
			cmd := exec.CommandContext(ctx, sv[0], append(sv[1:], path)...)
			b, _ := cmd.CombinedOutput()
			cancel()
			ans := strings.TrimSpace(string(b))
			first := strings.SplitN(ans, "\n", 2)[0]
			switch {
			case strings.Contains(ans, "(error"):
				unknowns++
			case first == "sat" || first == "unsat":
				checked++
				if first != j.verdict {
					dis = append(dis, fmt.Sprintf("%s: z3 4.8.12 said %s, %s said %s (%s)", j.name, j.verdict, sv[0], first, path))
				}
			default:
				unknowns++
			}
		}
	}
	notes = append(notes, fmt.Sprintf("cross-checked %d obligation scripts x {z3-new 5.1.0, cvc5 1.0}: %d agreeing verdicts, %d unknown/unsupported", n, checked-len(dis), unknowns))
	return checked, dis, notes
}

// ---------------------------------------------------------------------------
// evidence

func writeEvidence(prop, tier string, seed int, results []*gosym.Result, spec PropSpec, viols []gosym.Violation, wall time.Duration, validated int, inconclusive []string, cross int, notes []string) {
	type fnInfo struct {
		Name string `json:"name"`
		Pos  string `json:"pos_and_ssa_hash"`
	}
	cov := map[string]any{}
	states, transitions, obligations, discharged, calls := 0, int64(0), 0, 0, 0
	var stime time.Duration
	bounds := map[string]string{}
	funcs := map[string]string{}
	intr := map[string]int{}
	stubs := map[string]int{}
	noops := map[string]int{}
	var samples []any
	perHarness := []any{}
	reached := map[string]int{}
	knownTotal := 0
	for _, r := range results {
		states += r.Paths
		transitions += r.Steps
		obligations += r.Obligations
		discharged += r.Discharged
		calls += r.SolverCalls
		stime += r.SolverTime
		for k, v := range r.Bounds {
			bounds[r.Harness+"."+k] = v
		}
		for k, v := range r.Functions {
			funcs[k] = v
		}
		for k, v := range r.Intrinsics {
			intr[k] += v
		}
		for k, v := range r.Stubs {
			stubs[k] += v
		}
		for k, v := range r.NoopCalls {
			noops[k] += v
		}
		for k, v := range r.Reached {
			reached[r.Harness+"."+k] += v
		}
		for _, n := range r.KnownHits {
			knownTotal += n
		}
		for i, s := range r.Samples {
			if i < 3 {
				samples = append(samples, map[string]any{"harness": r.Harness, "path": s})
			}
		}
		perHarness = append(perHarness, map[string]any{"harness": r.Harness, "paths": r.Paths, "ssa_instructions": r.Steps, "decisions": r.Decisions,
			"max_decision_depth": r.MaxDepth, "obligations": r.Obligations, "discharged": r.Discharged, "outcomes": r.Outcomes,
			"solver_calls": r.SolverCalls, "solver_time_s": r.SolverTime.Seconds(), "wall_s": r.Wall.Seconds(), "violations_by_assertion": r.ViolCount})
	}
	if len(samples) == 0 {
		samples = append(samples, "no path explored")
	}
	var fl []fnInfo
	for k, v := range funcs {
		if strings.Contains(v, "zz_verif") {
			continue
		}
		fl = append(fl, fnInfo{k, v})
	}
	sort.Slice(fl, func(i, j int) bool { return fl[i].Name < fl[j].Name })
	cov["states"] = states
	cov["transitions"] = transitions
	cov["traces_validated_against_impl"] = validated
	cov["samples"] = samples
	cov["obligations"] = obligations
	cov["discharged"] = discharged
	cov["exhaustive"] = len(inconclusive) == 0
	cov["exhaustive_within_bounds"] = len(inconclusive) == 0
	cov["rule"] = "states = feasible control-flow paths (plus schedules / map orders where enabled) of the harness executed symbolically over the SSA of /repo's working tree; data is symbolic on every path and each assertion is decided by z3 for all values within the bounds"
	cov["functions_encoded"] = fl
	cov["bounds"] = bounds
	cov["intrinsics_used"] = intr
	cov["stubs_used"] = stubs
	cov["noop_packages_called"] = noops
	cov["reachability_witnesses"] = reached
	cov["per_harness"] = perHarness
	cov["solver"] = map[string]any{"engine": "z3 4.8.12 (z3 -in, push/pop)", "check_sat_calls": calls, "time_s": stime.Seconds(), "cross_checked_verdicts": cross}
	cov["known_finding_paths"] = knownTotal
	cov["no_verdict"] = inconclusive
	cov["notes"] = notes
	ev := map[string]any{
		"property_id": prop,
		"tier":        tier,
		"seed":        seed,
		"level":       "model_checking",
		"coverage":    cov,
		"assumptions": spec.Assumptions,
		"wall_s":      wall.Seconds(),
		"violations":  len(viols),
	}
	if spec.Level != "" {
		ev["level"] = spec.Level
		if spec.Level == "other" {
			cov["explanation"] = strings.Join(spec.Assumptions, " ")
		}
	}
	os.MkdirAll(filepath.Join(verifRoot, "evidence"), 0o755)
	b, _ := json.MarshalIndent(ev, "", " ")
	os.WriteFile(filepath.Join(verifRoot, "evidence", prop+".json"), b, 0o644)
}

var _ = bytes.NewBuffer
