package main

import (
	"encoding/json"
	"flag"
	"fmt"
	"os"
	"sort"
	"strings"
	"time"

	"verif/engine/gosym"
)

func main() {
	if len(os.Args) > 1 && os.Args[1] == "replay" {
		os.Exit(replayMain(os.Args[2:]))
	}
	if len(os.Args) > 1 && os.Args[1] == "check" {
		os.Exit(checkMain(os.Args[2:]))
	}
	repo := flag.String("repo", "/repo", "repository")
	hroot := flag.String("harness", "/verif/harness", "harness root (overlay)")
	if r := os.Getenv("VERIF_ROOT"); r != "" {
		*hroot = r + "/harness"
	}
	pkgs := flag.String("pkgs", "", "comma separated package patterns")
	entry := flag.String("entry", "", "harness entry function")
	workers := flag.Int("workers", 8, "workers")
	maxPaths := flag.Int("max-paths", 100000, "path budget")
	params := flag.String("params", "", "k=v,k=v")
	verbose := flag.Bool("v", false, "verbose")
	noop := flag.String("noop", "", "extra no-op package prefixes, comma separated")
	initPkgs := flag.String("init", "", "extra packages whose initialisers run, comma separated")
	flag.Parse()
	ov, err := gosym.Overlay(*repo, *hroot)
	if err != nil {
		fmt.Println("overlay:", err)
		os.Exit(3)
	}
	p, _, err := gosym.Load(*repo, ov, strings.Split(*pkgs, ","))
	if err != nil {
		fmt.Println("load:", err)
		os.Exit(3)
	}
	fn := p.FindFunc(*entry)
	if fn == nil {
		fmt.Println("entry not found:", *entry)
		os.Exit(3)
	}
	cfg := gosym.Config{Entry: *entry, Workers: *workers, MaxPaths: *maxPaths, Params: map[string]int{}, Verbose: *verbose, Preempt: -1}
	if *noop != "" {
		cfg.NoopPkgs = strings.Split(*noop, ",")
	}
	if *initPkgs != "" {
		cfg.InitPkgs = map[string]bool{}
		for _, ip := range strings.Split(*initPkgs, ",") {
			cfg.InitPkgs[ip] = true
		}
	}
	for _, kv := range strings.Split(*params, ",") {
		if kv == "" {
			continue
		}
		var k string
		var v int
		parts := strings.SplitN(kv, "=", 2)
		k = parts[0]
		fmt.Sscan(parts[1], &v)
		cfg.Params[k] = v
	}
	if os.Getenv("VERIF_SLOWLOG") != "" {
		n := 0
		gosym.SlowLog = func(script string, d time.Duration, verdict string) {
			n++
			os.WriteFile(fmt.Sprintf("%s/slow-%d.smt2", os.Getenv("VERIF_SLOWLOG"), n), []byte(fmt.Sprintf("; %v %s\n%s", d, verdict, script)), 0o644)
		}
	}
	if v, ok := cfg.Params["preempt"]; ok {
		cfg.Preempt = v
	}
	if v, ok := cfg.Params["max_decisions"]; ok {
		cfg.MaxDecisions = v
	}
	res := gosym.Explore(p, fn, cfg)
	fmt.Printf("paths=%d steps=%d obligations=%d discharged=%d solver_calls=%d solver_time=%v wall=%v\n",
		res.Paths, res.Steps, res.Obligations, res.Discharged, res.SolverCalls, res.SolverTime, res.Wall)
	fmt.Println("outcomes:", res.Outcomes)
	fmt.Println("decision kinds:", res.DecisionKinds, "maxdepth:", res.MaxDepth)
	fmt.Println("reached:", res.Reached)
	keys := []string{}
	for k := range res.Inconclusive {
		keys = append(keys, k)
	}
	sort.Strings(keys)
	for _, k := range keys {
		fmt.Printf("INCONCLUSIVE x%d: %s\n", res.Inconclusive[k], k)
	}
	for _, v := range res.Violations {
		b, _ := json.Marshal(v.Values)
		fmt.Printf("VIOLATION tag=%s detail=%s values=%s stack=%v\n", v.Tag, v.Detail, b, v.Stack)
	}
	fmt.Println("violcount:", res.ViolCount, "known:", res.KnownHits)
	if *verbose {
		for k, v := range res.Functions {
			fmt.Println("fn", k, v)
		}
		fmt.Println("intrinsics:", res.Intrinsics)
		fmt.Println("noop:", res.NoopCalls)
		fmt.Println("uninit:", res.UninitGlobals)
		fmt.Println("solver errors:", res.SolverErrors)
		for _, s := range res.Samples {
			b, _ := json.Marshal(s)
			fmt.Println("sample", string(b))
		}
	}
}
