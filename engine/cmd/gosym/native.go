package main

// Native replay: the harness package is compiled with `go test -c -overlay`
// (harness files, the zzverif runtime, a generated replay test and, for every
// //verif:stub annotation, a rewritten copy of the target's source file whose
// target function is renamed and replaced by a trampoline to the stub).  The
// test binary is then run once per counterexample / witness file.

import (
	"bytes"
	"context"
	"encoding/json"
	"fmt"
	"go/ast"
	"go/types"
	"os"
	"os/exec"
	"path/filepath"
	"sort"
	"strings"
	"time"

	"golang.org/x/tools/go/ssa"

	"verif/engine/gosym"
)

type nativeRunner struct {
	repo   string
	outDir string
	p      *gosym.Program
	bins   map[string]string // package dir -> test binary
	errs   map[string]error
	tmp    string
	// harness files (by their path in the tree) left out because they do not type-check
	dropped map[string]bool
}

func newNativeRunner(repo, outDir string, p *gosym.Program) *nativeRunner {
	return &nativeRunner{repo: repo, outDir: outDir, p: p, bins: map[string]string{}, errs: map[string]error{}}
}

func (n *nativeRunner) cleanup() {
	for _, b := range n.bins {
		os.Remove(b)
	}
	if n.tmp != "" {
		os.RemoveAll(n.tmp)
	}
}

func (n *nativeRunner) build(fn *ssa.Function) (string, error) {
	pkg := fn.Pkg
	dir := filepath.Dir(n.p.Prog.Fset.Position(fn.Pos()).Filename)
	if b, ok := n.bins[dir]; ok {
		return b, n.errs[dir]
	}
	if n.tmp == "" {
		n.tmp = filepath.Join(n.outDir, "native")
		os.MkdirAll(n.tmp, 0o755)
	}
	replace := map[string]string{}
	// harness files
	hroot := filepath.Join(verifRoot, "harness")
	filepath.Walk(hroot, func(p string, info os.FileInfo, err error) error {
		if err == nil && !info.IsDir() && strings.HasSuffix(p, ".go") {
			rel, _ := filepath.Rel(hroot, p)
			if !n.dropped[filepath.Join(n.repo, rel)] {
				replace[filepath.Join(n.repo, rel)] = p
			}
		}
		return nil
	})
	// replay test
	var names []string
	for name, mem := range pkg.Members {
		if f, ok := mem.(*ssa.Function); ok && strings.HasPrefix(name, "VH_") && f.Signature.Params().Len() == 0 && f.Signature.Results().Len() == 0 {
			names = append(names, name)
		}
	}
	sort.Strings(names)
	var b bytes.Buffer
	fmt.Fprintf(&b, "package %s\n\nimport (\n\t\"fmt\"\n\t\"os\"\n\t\"testing\"\n\n\tzz \"%s/pkg/zzverif\"\n)\n\n", pkg.Pkg.Name(), gosym.RepoModule)
	fmt.Fprintf(&b, "func TestZZVerifReplay(t *testing.T) {\n\ths := map[string]func(){\n")
	for _, nme := range names {
		fmt.Fprintf(&b, "\t\t%q: %s,\n", nme, nme)
	}
	fmt.Fprintf(&b, "\t}\n\tif err := zz.LoadReplay(os.Getenv(\"VERIF_CEX\")); err != nil {\n\t\tt.Fatal(err)\n\t}\n\tfn := hs[zz.Harness()]\n\tif fn == nil {\n\t\tt.Fatal(\"unknown harness \" + zz.Harness())\n\t}\n\tfmt.Println(\"ZZ OUTCOME \" + zz.RunReplay(fn))\n}\n")
	testFile := filepath.Join(n.tmp, "replay_"+pkg.Pkg.Name()+"_test.go")
	os.WriteFile(testFile, b.Bytes(), 0o644)
	replace[filepath.Join(dir, "zz_verif_replay_test.go")] = testFile
	// stubs
	if err := n.stubgen(replace); err != nil {
		n.bins[dir] = ""
		n.errs[dir] = err
		return "", err
	}
	ovPath := filepath.Join(n.tmp, "overlay_"+pkg.Pkg.Name()+".json")
	ob, _ := json.Marshal(map[string]any{"Replace": replace})
	os.WriteFile(ovPath, ob, 0o644)
	bin := filepath.Join(n.tmp, "replay_"+pkg.Pkg.Name()+".test")
	rel, _ := filepath.Rel(n.repo, dir)
	ctx, cancel := context.WithTimeout(context.Background(), 10*time.Minute)
	defer cancel()
	cmd := exec.CommandContext(ctx, "go", "test", "-c", "-vet=off", "-overlay", ovPath, "-o", bin, "./"+rel)
	cmd.Dir = n.repo
	cmd.Env = append(os.Environ(), "GOFLAGS=-mod=mod", "GOPROXY=off")
	out, err := cmd.CombinedOutput()
	if err != nil {
		err = fmt.Errorf("go test -c failed: %v: %s", err, tail(string(out), 1500))
		bin = ""
	}
	n.bins[dir] = bin
	n.errs[dir] = err
	return bin, err
}

func tail(s string, n int) string {
	if len(s) > n {
		return s[len(s)-n:]
	}
	return s
}

// run replays one counterexample file natively.  A run that ends without any outcome line and
// without a crash (a machine so loaded that the process ran into the time limit) is repeated, at
// most twice, before it is reported as "no outcome".
func (n *nativeRunner) run(fn *ssa.Function, cex string) (nativeOut, error) {
	var out nativeOut
	var err error
	for attempt := 0; attempt < 3; attempt++ {
		out, err = n.runOnce(fn, cex)
		if err == nil || !strings.Contains(err.Error(), "replay produced no outcome") {
			break
		}
	}
	return out, err
}

func (n *nativeRunner) runOnce(fn *ssa.Function, cex string) (nativeOut, error) {
	bin, err := n.build(fn)
	if err != nil {
		return nativeOut{}, err
	}
	ctx, cancel := context.WithTimeout(context.Background(), 120*time.Second)
	defer cancel()
	cmd := exec.CommandContext(ctx, bin, "-test.run", "^TestZZVerifReplay$", "-test.v", "-test.timeout", "100s")
	cmd.Dir = filepath.Dir(n.p.Prog.Fset.Position(fn.Pos()).Filename)
	if _, err := os.Stat(cmd.Dir); err != nil {
		cmd.Dir = n.repo
	}
	cmd.Env = append(os.Environ(), "VERIF_CEX="+cex)
	b, _ := cmd.CombinedOutput()
	out := nativeOut{Obs: map[string]string{}, Raw: string(b)}
	for _, line := range strings.Split(string(b), "\n") {
		line = strings.TrimSpace(line)
		if !strings.HasPrefix(line, "ZZ ") {
			continue
		}
		line = line[3:]
		switch {
		case strings.HasPrefix(line, "OUTCOME "):
			out.Outcome = line[8:]
		case strings.HasPrefix(line, "OBS "):
			kv := strings.SplitN(line[4:], "=", 2)
			if len(kv) == 2 {
				out.Obs[kv[0]] = kv[1]
			}
		case strings.HasPrefix(line, "ASSERT-FAIL "):
			out.Failed = append(out.Failed, line[12:])
		}
	}
	if out.Outcome == "" {
		// the process died (fatal error, os.Exit, unrecovered panic in another goroutine)
		if strings.Contains(string(b), "panic:") || strings.Contains(string(b), "fatal error:") {
			out.Outcome = "panic:" + firstLineWith(string(b), "panic:", "fatal error:")
		} else {
			return out, fmt.Errorf("replay produced no outcome: %s", tail(string(b), 800))
		}
	}
	return out, nil
}

func firstLineWith(s string, keys ...string) string {
	for _, l := range strings.Split(s, "\n") {
		for _, k := range keys {
			if strings.Contains(l, k) {
				return strings.TrimSpace(l)
			}
		}
	}
	return ""
}

// stubgen rewrites the source file of every stub target.
func (n *nativeRunner) stubgen(replace map[string]string) error {
	type edit struct {
		off  int
		text string
	}
	edits := map[string][]edit{}
	appendix := map[string][]string{}
	for target, stub := range n.p.Stubs {
		if n.p.EngineOnly[target] {
			continue
		}
		tf := n.findTarget(target)
		if tf == nil {
			return fmt.Errorf("stubgen: target %s not found", target)
		}
		decl, ok := tf.Syntax().(*ast.FuncDecl)
		if !ok || decl.Body == nil {
			return fmt.Errorf("stubgen: no declaration for %s", target)
		}
		fset := n.p.Prog.Fset
		file := fset.Position(decl.Pos()).Filename
		src, err := os.ReadFile(file)
		if err != nil {
			return err
		}
		nameEnd := fset.Position(decl.Name.End()).Offset
		edits[file] = append(edits[file], edit{nameEnd, "__orig"})
		sigStart := fset.Position(decl.Pos()).Offset
		sigBytes := append([]byte{}, src[sigStart:fset.Position(decl.Body.Lbrace).Offset]...)
		// blank / unnamed parameters get generated names in the trampoline
		type ren struct {
			off int
			n   int
			txt string
		}
		var rens []ren
		var args []string
		if decl.Recv != nil {
			if len(decl.Recv.List) != 1 || len(decl.Recv.List[0].Names) != 1 || decl.Recv.List[0].Names[0].Name == "_" {
				return fmt.Errorf("stubgen: %s has an unnamed receiver", target)
			}
			args = append(args, decl.Recv.List[0].Names[0].Name)
		}
		pi := 0
		for _, f := range decl.Type.Params.List {
			if len(f.Names) == 0 {
				return fmt.Errorf("stubgen: %s has unnamed parameters", target)
			}
			for _, nm := range f.Names {
				a := nm.Name
				if a == "_" {
					a = fmt.Sprintf("zzp%d", pi)
					rens = append(rens, ren{fset.Position(nm.Pos()).Offset - sigStart, 1, a})
				}
				pi++
				if _, ok := f.Type.(*ast.Ellipsis); ok {
					a += "..."
				}
				args = append(args, a)
			}
		}
		sort.Slice(rens, func(i, j int) bool { return rens[i].off > rens[j].off })
		for _, r := range rens {
			sigBytes = append(sigBytes[:r.off], append([]byte(r.txt), sigBytes[r.off+r.n:]...)...)
		}
		sig := string(sigBytes)
		ret := "return "
		if decl.Type.Results == nil || len(decl.Type.Results.List) == 0 {
			ret = ""
		}
		stubRef := stub.Name()
		if stub.Pkg != tf.Pkg && tf.Pkg != nil {
			return fmt.Errorf("stubgen: stub %s must live in the package of its target %s", stub, target)
		}
		guard := ""
		if g := n.p.Guards[target]; g != nil {
			orig := decl.Name.Name + "__orig(" + strings.Join(args, ", ") + ")"
			if decl.Recv != nil {
				orig = args[0] + "." + decl.Name.Name + "__orig(" + strings.Join(args[1:], ", ") + ")"
			}
			if ret == "" {
				guard = fmt.Sprintf("if !%s() { %s; return }; ", g.Name(), orig)
			} else {
				guard = fmt.Sprintf("if !%s() { return %s }; ", g.Name(), orig)
			}
		}
		appendix[file] = append(appendix[file], fmt.Sprintf("\n// generated by stubgen: %s is replaced by the harness stub\n%s{ %s%s%s(%s) }\n", target, sig, guard, ret, stubRef, strings.Join(args, ", ")))
	}
	for file, es := range edits {
		src, _ := os.ReadFile(file)
		sort.Slice(es, func(i, j int) bool { return es[i].off > es[j].off })
		for _, e := range es {
			src = append(src[:e.off], append([]byte(e.text), src[e.off:]...)...)
		}
		for _, a := range appendix[file] {
			src = append(src, []byte(a)...)
		}
		rel, _ := filepath.Rel(n.repo, file)
		dst := filepath.Join(n.tmp, "stub_"+strings.ReplaceAll(rel, "/", "_"))
		if err := os.WriteFile(dst, src, 0o644); err != nil {
			return err
		}
		replace[file] = dst
	}
	return nil
}

func (n *nativeRunner) findTarget(target string) *ssa.Function {
	for fn := range allFunctions(n.p.Prog) {
		if fn.String() == target && fn.Syntax() != nil {
			return fn
		}
	}
	return nil
}

var allFnCache map[*ssa.Function]bool

func allFunctions(prog *ssa.Program) map[*ssa.Function]bool {
	if allFnCache != nil {
		return allFnCache
	}
	out := map[*ssa.Function]bool{}
	for _, pkg := range prog.AllPackages() {
		if !strings.HasPrefix(pkg.Pkg.Path(), gosym.RepoModule) {
			continue
		}
		for _, mem := range pkg.Members {
			switch mem := mem.(type) {
			case *ssa.Function:
				out[mem] = true
			case *ssa.Type:
				for _, t := range []interface{ String() string }{mem.Type()} {
					_ = t
				}
				mset := prog.MethodSets.MethodSet(mem.Type())
				for i := 0; i < mset.Len(); i++ {
					if f := prog.MethodValue(mset.At(i)); f != nil {
						out[f] = true
					}
				}
				pset := prog.MethodSets.MethodSet(ptrTo(mem))
				for i := 0; i < pset.Len(); i++ {
					if f := prog.MethodValue(pset.At(i)); f != nil {
						out[f] = true
					}
				}
			}
		}
	}
	allFnCache = out
	return out
}

func ptrTo(t *ssa.Type) types.Type { return types.NewPointer(t.Type()) }
