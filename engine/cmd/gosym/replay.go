package main

// gosym replay <Cnn> <cex.json>: re-runs one recorded counterexample against
// /repo's current tree - natively (go test -overlay) when the harness is
// natively replayable, otherwise by concrete re-execution in the engine with
// the recorded values and scheduler/select/map-order choices.
// exit 1 + "REPRODUCED ..." when the violation shows again, 0 otherwise.

import (
	"encoding/json"
	"fmt"
	"os"
	"path/filepath"

	"verif/engine/gosym"
)

func replayMain(args []string) int {
	if len(args) < 2 {
		fmt.Println("usage: gosym replay <Cnn> <cex.json>")
		return 3
	}
	prop, path := args[0], args[1]
	repo := "/repo"
	if r := os.Getenv("VERIF_REPO"); r != "" {
		repo = r
	}
	var specs map[string]PropSpec
	if err := readJSON(filepath.Join(verifRoot, "checks.json"), &specs); err != nil {
		fmt.Println("HARNESS-BROKEN cannot read checks.json:", err)
		return 3
	}
	spec, ok := specs[prop]
	if !ok {
		fmt.Println("HARNESS-BROKEN no check registered for", prop)
		return 3
	}
	var cex struct {
		Harness   string            `json:"harness"`
		Values    []gosym.NondetVal `json:"values"`
		Params    map[string]int    `json:"params"`
		Tag       string            `json:"tag"`
		Detail    string            `json:"detail"`
		Decisions json.RawMessage   `json:"decisions"`
	}
	if err := readJSON(path, &cex); err != nil {
		fmt.Println("cannot read counterexample:", err)
		return 3
	}
	ov, err := gosym.Overlay(repo, filepath.Join(verifRoot, "harness"))
	if err != nil {
		fmt.Println("HARNESS-BROKEN overlay:", err)
		return 3
	}
	p, _, err := gosym.Load(repo, ov, spec.Pkgs)
	if err != nil {
		fmt.Println("HARNESS-BROKEN load failed:", err)
		return 3
	}
	fn := p.FindFunc(cex.Harness)
	if fn == nil {
		fmt.Println("HARNESS-BROKEN entry not found:", cex.Harness)
		return 3
	}
	v := gosym.Violation{Tag: cex.Tag, Detail: cex.Detail, Values: cex.Values}
	if len(cex.Decisions) > 0 {
		json.Unmarshal(cex.Decisions, &v.Decisions)
	}
	threads := false
	for _, h := range spec.Harnesses {
		if h.Entry == cex.Harness && (h.Threads || h.NoNative) {
			threads = true
		}
	}
	if !threads && !usesEngineOnlyChoices(v) {
		outDir, _ := os.MkdirTemp("", "gosym-replay")
		defer os.RemoveAll(outDir)
		native := newNativeRunner(repo, outDir, p)
		defer native.cleanup()
		out, err := native.run(fn, path)
		if err == nil {
			if matchesViolation(out, v) {
				fmt.Printf("REPRODUCED natively: harness=%s assertion=%s\n", cex.Harness, cex.Tag)
				return 1
			}
			fmt.Printf("not reproduced natively: outcome=%s (wanted %s)\n", out.Outcome, cex.Tag)
			return 0
		}
		fmt.Println("native replay could not run:", err, "- falling back to the engine")
	}
	cfg := gosym.Config{Entry: cex.Harness, Workers: 1, Params: cex.Params, Preempt: -1, InitPkgs: map[string]bool{}, NoopPkgs: spec.NoopPkgs}
	if pv, ok := cex.Params["preempt"]; ok {
		cfg.Preempt = pv
	}
	for _, ip := range spec.InitPkgs {
		cfg.InitPkgs[ip] = true
	}
	ok2, why := gosym.ConcreteReplay(p, fn, cfg, v)
	if ok2 {
		fmt.Printf("REPRODUCED by concrete re-execution in the engine: harness=%s assertion=%s\n", cex.Harness, cex.Tag)
		return 1
	}
	fmt.Println("not reproduced:", why)
	return 0
}
