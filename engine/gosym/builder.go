package gosym

// strings.Builder / bytes.Buffer (write-only use) modelled as an accumulated
// (possibly symbolic) string keyed by the object's address.

import (
	"go/token"
)

func (m *machine) sbGet(p value) value {
	if m.builders == nil {
		m.builders = map[*value]value{}
	}
	if v, ok := m.builders[p.(*value)]; ok {
		return v
	}
	return ""
}

func (m *machine) sbAppend(p value, s value) {
	cur := m.sbGet(p)
	m.builders[p.(*value)] = m.binopStr(token.ADD, cur, s)
}

func init() {
	for _, recv := range []string{"(*strings.Builder)"} {
		recv := recv
		intrinsics[recv+".WriteString"] = func(fr *frame, a []value) (value, bool) {
			fr.m.sbAppend(a[0], a[1])
			return tuple{fr.m.strLen(a[1]), iface{}}, true
		}
		intrinsics[recv+".WriteByte"] = func(fr *frame, a []value) (value, bool) {
			fr.m.sbAppend(a[0], fr.m.conv(tString, tRune, a[1]))
			return iface{}, true
		}
		intrinsics[recv+".WriteRune"] = func(fr *frame, a []value) (value, bool) {
			fr.m.sbAppend(a[0], fr.m.conv(tString, tRune, a[1]))
			return tuple{1, iface{}}, true
		}
		intrinsics[recv+".Write"] = func(fr *frame, a []value) (value, bool) {
			s := fr.m.conv(tString, tBytes, a[1])
			fr.m.sbAppend(a[0], s)
			return tuple{fr.m.strLen(s), iface{}}, true
		}
		intrinsics[recv+".String"] = func(fr *frame, a []value) (value, bool) {
			return fr.m.sbGet(a[0]), true
		}
		intrinsics[recv+".Len"] = func(fr *frame, a []value) (value, bool) {
			return fr.m.strLen(fr.m.sbGet(a[0])), true
		}
		intrinsics[recv+".Reset"] = func(fr *frame, a []value) (value, bool) {
			fr.m.sbGet(a[0])
			fr.m.builders[a[0].(*value)] = ""
			return nil, true
		}
		intrinsics[recv+".Grow"] = func(fr *frame, a []value) (value, bool) { return nil, true }
	}
}
