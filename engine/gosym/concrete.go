package gosym

import (
	"fmt"
	"go/types"
	"strconv"

	"golang.org/x/tools/go/ssa"
)

// ConcreteReplay re-executes the harness in the interpreter with every
// nondeterministic input fixed to the counterexample's value and every
// engine-level choice (schedule, select, map order) fixed to the recorded one.
// It confirms that the concrete run of the (interpreted) real code violates
// the same assertion.
func ConcreteReplay(p *Program, entry *ssa.Function, cfg Config, v Violation) (bool, string) {
	sol, err := NewSolver("z3", []string{"-in"}, 10000)
	if err != nil {
		return false, err.Error()
	}
	defer sol.Close()
	cfg.Known = nil
	if cfg.MaxSteps <= 0 {
		cfg.MaxSteps = 2000000
	}
	if cfg.MaxDecisions <= 0 {
		cfg.MaxDecisions = 2000
	}
	cfg.KeepScripts = 0
	res := newResult(cfg.Entry)
	var prefix []decision
	for _, d := range v.Decisions {
		switch d.Kind {
		case "sched", "select", "maprev", "mapperm", "maprot":
			prefix = append(prefix, d)
		}
	}
	m := newMachine(p, cfg, sol, prefix, res)
	m.concrete = append([]NondetVal{}, v.Values...)
	m.concreteMode = true
	sol.Fresh()
	sol.Push()
	outcome := "done"
	func() {
		defer func() {
			r := recover()
			switch r := r.(type) {
			case nil:
			case pathEnd:
				outcome = r.kind + ": " + r.msg
			case engineErr:
				outcome = "engine-error: " + string(r)
			case targetPanic:
				outcome = "panic"
				m.pos = len(m.prefix)
				m.targetPanicked(r)
			default:
				outcome = fmt.Sprintf("engine-crash: %v", r)
			}
		}()
		m.runMain(entry)
	}()
	m.killThreads()
	for sol.Depth() > 0 {
		sol.Pop()
	}
	if res.ViolCount[v.Tag] > 0 {
		return true, ""
	}
	return false, fmt.Sprintf("concrete re-execution ended with %q, violations %v", outcome, res.ViolCount)
}

func (m *machine) nextConcrete(tag string) NondetVal {
	if m.cpos >= len(m.concrete) {
		panic(pathEnd{"abort", "concrete replay ran out of values at " + tag})
	}
	v := m.concrete[m.cpos]
	m.cpos++
	if v.Tag != tag {
		panic(pathEnd{"abort", fmt.Sprintf("concrete replay: value %d is for %q, harness asked for %q", m.cpos-1, v.Tag, tag)})
	}
	return v
}

func (m *machine) concInt64(tag string) int64 {
	v := m.nextConcrete(tag)
	n, err := strconv.ParseInt(v.Value, 10, 64)
	if err != nil {
		panic(pathEnd{"abort", "concrete replay: bad int " + v.Value})
	}
	return n
}

func (m *machine) concIntOfKind(tag string, k types.BasicKind) value {
	return intOfKind(k, m.concInt64(tag))
}
