package gosym

// JSON document streams (zz.JSONDocs): an opaque []byte carrying a list of
// key/value documents.  json.NewDecoder(bytes.NewReader(b)).Decode(&target)
// sets exactly the fields of target that the next document mentions and leaves
// the others untouched, which is what encoding/json does; after the last
// document it returns io.EOF.  Byte-level JSON syntax is outside the model.

import (
	"fmt"
	"go/types"
	"reflect"
	"strings"
)

type docBytes struct {
	docs        []*mapV
	malformedAt int
	yaml        bool // written as YAML documents: not decodable as JSON
}

func docStreamOf(rw value) *docBytes {
	it, ok := rw.(iface)
	if !ok || it.t == nil {
		return nil
	}
	p, ok := it.v.(*value)
	if !ok || p == nil {
		return nil
	}
	st, ok := (*p).(structure)
	if !ok || len(st) == 0 {
		return nil
	}
	db, _ := st[0].(*docBytes)
	return db
}

func (m *machine) ioEOF() iface {
	if p := m.prog.ImportedPackage("io"); p != nil {
		if g := p.Var("EOF"); g != nil {
			if v, ok := load(mustDeref(g.Type()), m.global(g)).(iface); ok && v.t != nil {
				return v
			}
		}
	}
	panic(engineErr("io.EOF is not available"))
}

func jsonFieldName(st *types.Struct, i int) string { return tagFieldName(st, i, "json") }

func tagFieldName(st *types.Struct, i int, key string) string {
	tag := reflect.StructTag(st.Tag(i)).Get(key)
	if j := strings.Index(tag, ","); j >= 0 {
		tag = tag[:j]
	}
	if tag == "-" {
		return ""
	}
	if tag == "" {
		return st.Field(i).Name()
	}
	return tag
}

// decodeDoc stores the document's members into *out (a pointer to a struct).
func (m *machine) decodeDoc(doc *mapV, out value) { m.decodeDocTag(doc, out, "json") }

func (m *machine) decodeDocTag(doc *mapV, out value, tagKey string) {
	oi, ok := out.(iface)
	if !ok || oi.t == nil {
		panic(engineErr("json document stream: decode target is not a typed pointer"))
	}
	pt, ok := oi.t.Underlying().(*types.Pointer)
	if !ok {
		panic(engineErr("json document stream: decode target is not a pointer"))
	}
	st, ok := pt.Elem().Underlying().(*types.Struct)
	if !ok {
		panic(engineErr("json document stream: decode target is not a struct"))
	}
	target := oi.v.(*value)
	cur := copyVal(load(pt.Elem(), target)).(structure)
	for _, e := range doc.entries {
		if e.deleted {
			continue
		}
		key, ok := e.k.(string)
		if !ok {
			panic(engineErr("json document stream: symbolic member name"))
		}
		for i := 0; i < st.NumFields(); i++ {
			if !st.Field(i).Exported() || !strings.EqualFold(tagFieldName(st, i, tagKey), key) {
				continue
			}
			ft := st.Field(i).Type()
			val, _ := e.v.(iface)
			if val.t == nil {
				// JSON null: the field keeps its value (no pointers / maps in the supported targets)
				break
			}
			if _, isIface := ft.Underlying().(*types.Interface); isIface {
				cur[i] = copyVal(e.v)
				break
			}
			fb, ok1 := ft.Underlying().(*types.Basic)
			vb, ok2 := val.t.Underlying().(*types.Basic)
			if !ok1 || !ok2 || fb.Info()&types.IsString != vb.Info()&types.IsString || fb.Info()&types.IsBoolean != vb.Info()&types.IsBoolean {
				panic(engineErr(fmt.Sprintf("json document stream: member %q of type %v into field of type %v is not modelled", key, val.t, ft)))
			}
			cur[i] = copyVal(val.v)
			break
		}
	}
	store(pt.Elem(), target, cur)
}

func init() {
	zzAPI["YAMLDocs"] = func(fr *frame, a []value) value {
		db := &docBytes{malformedAt: -1, yaml: true}
		if l, ok := a[0].([]value); ok {
			for _, d := range l {
				mv, _ := d.(*mapV)
				if mv == nil {
					mv = &mapV{}
				}
				db.docs = append(db.docs, mv)
			}
		}
		return db
	}
	intrinsics["gopkg.in/yaml.v3.NewDecoder"] = func(fr *frame, a []value) (value, bool) {
		return &jsonCodec{rw: a[0]}, true
	}
	intrinsics["(*gopkg.in/yaml.v3.Decoder).Decode"] = func(fr *frame, a []value) (value, bool) {
		c, ok := a[0].(*jsonCodec)
		if !ok {
			panic(engineErr("yaml.Decoder not created by the model"))
		}
		db := docStreamOf(c.rw)
		if db == nil || !db.yaml {
			panic(engineErr("yaml decoding is modelled for zz.YAMLDocs carriers only"))
		}
		if c.pos >= len(db.docs) {
			return fr.m.ioEOF(), true
		}
		fr.m.decodeDocTag(db.docs[c.pos], a[1], "yaml")
		c.pos++
		return iface{}, true
	}
	zzAPI["JSONDocs"] = func(fr *frame, a []value) value {
		db := &docBytes{malformedAt: concI(a[0], "malformedAt")}
		if l, ok := a[1].([]value); ok {
			for _, d := range l {
				mv, _ := d.(*mapV)
				if mv == nil {
					mv = &mapV{}
				}
				db.docs = append(db.docs, mv)
			}
		}
		return db
	}
}
