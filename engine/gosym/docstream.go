package gosym

// JSON document streams (zz.JSONDocs): an opaque []byte carrying a list of
// key/value documents.  json.NewDecoder(bytes.NewReader(b)).Decode(&target)
// sets exactly the fields of target that the next document mentions and leaves
// the others untouched, which is what encoding/json does; after the last
// document it returns io.EOF.  Byte-level JSON syntax is outside the model.

import (
	"fmt"
	"go/types"
	"reflect"
	"strings"
)

type docBytes struct {
	docs        []*mapV
	malformedAt int
	strayAt     int  // a stray '}' or ']' stands in front of this document (len(docs): at the end); -1: none
	yaml        bool // written as YAML documents: not decodable as JSON
}

// jsonDocNext tells what a JSON decoder finds at document position pos:
// "doc", "eof", "malformed" (an undecodable fragment that starts like an object) or
// "stray" (a closing delimiter where a value should start).
func (db *docBytes) jsonDocNext(pos int) string {
	switch {
	case pos == db.strayAt && pos == db.malformedAt:
		return "malformed" // JSONDocs writes the fragment first
	case pos == db.strayAt:
		return "stray"
	case pos == db.malformedAt:
		return "malformed"
	case pos >= len(db.docs):
		return "eof"
	}
	return "doc"
}

func docStreamOf(rw value) *docBytes {
	it, ok := rw.(iface)
	if !ok || it.t == nil {
		return nil
	}
	p, ok := it.v.(*value)
	if !ok || p == nil {
		return nil
	}
	st, ok := (*p).(structure)
	if !ok || len(st) == 0 {
		return nil
	}
	db, _ := st[0].(*docBytes)
	return db
}

func (m *machine) ioEOF() iface {
	if p := m.prog.ImportedPackage("io"); p != nil {
		if g := p.Var("EOF"); g != nil {
			if v, ok := load(mustDeref(g.Type()), m.global(g)).(iface); ok && v.t != nil {
				return v
			}
		}
	}
	panic(engineErr("io.EOF is not available"))
}

func jsonFieldName(st *types.Struct, i int) string { return tagFieldName(st, i, "json") }

func tagFieldName(st *types.Struct, i int, key string) string {
	tag := reflect.StructTag(st.Tag(i)).Get(key)
	if j := strings.Index(tag, ","); j >= 0 {
		tag = tag[:j]
	}
	if tag == "-" {
		return ""
	}
	if tag == "" {
		return st.Field(i).Name()
	}
	return tag
}

// decodeDoc stores the document's members into *out (a pointer to a struct).
func (m *machine) decodeDoc(doc *mapV, out value) { m.decodeDocTag(doc, out, "json") }

func (m *machine) decodeDocTag(doc *mapV, out value, tagKey string) {
	oi, ok := out.(iface)
	if !ok || oi.t == nil {
		panic(engineErr("json document stream: decode target is not a typed pointer"))
	}
	pt, ok := oi.t.Underlying().(*types.Pointer)
	if !ok {
		panic(engineErr("json document stream: decode target is not a pointer"))
	}
	st, ok := pt.Elem().Underlying().(*types.Struct)
	if !ok {
		panic(engineErr("json document stream: decode target is not a struct"))
	}
	target := oi.v.(*value)
	cur := copyVal(load(pt.Elem(), target)).(structure)
	for _, e := range doc.entries {
		if e.deleted {
			continue
		}
		key, ok := e.k.(string)
		if !ok {
			panic(engineErr("json document stream: symbolic member name"))
		}
		for i := 0; i < st.NumFields(); i++ {
			if !st.Field(i).Exported() || !strings.EqualFold(tagFieldName(st, i, tagKey), key) {
				continue
			}
			ft := st.Field(i).Type()
			val, _ := e.v.(iface)
			if val.t == nil {
				// JSON null: the field keeps its value (no pointers / maps in the supported targets)
				break
			}
			if _, isIface := ft.Underlying().(*types.Interface); isIface {
				cur[i] = copyVal(e.v)
				break
			}
			if fp, isPtr := ft.Underlying().(*types.Pointer); isPtr {
				// *T of a basic T (e.g. *float64): a fresh cell holding the member's value
				eb, ok1 := fp.Elem().Underlying().(*types.Basic)
				vb, ok2 := val.t.Underlying().(*types.Basic)
				if !ok1 || !ok2 || eb.Info()&types.IsNumeric != vb.Info()&types.IsNumeric || eb.Info()&types.IsString != vb.Info()&types.IsString {
					panic(engineErr(fmt.Sprintf("json document stream: member %q of type %v into field of type %v is not modelled", key, val.t, ft)))
				}
				cell := new(value)
				*cell = copyVal(val.v)
				cur[i] = cell
				break
			}
			if fm, isMap := ft.Underlying().(*types.Map); isMap {
				// map[string]string from a nested document of strings
				src, okm := val.v.(*mapV)
				kb, ok1 := fm.Key().Underlying().(*types.Basic)
				eb, ok2 := fm.Elem().Underlying().(*types.Basic)
				if !okm || !ok1 || !ok2 || kb.Info()&types.IsString == 0 || eb.Info()&types.IsString == 0 {
					panic(engineErr(fmt.Sprintf("json document stream: member %q of type %v into field of type %v is not modelled", key, val.t, ft)))
				}
				dst, _ := cur[i].(*mapV)
				if dst == nil {
					dst = &mapV{keyT: fm.Key()}
				} else {
					dst = copyVal(dst).(*mapV)
				}
				for _, me := range src.entries {
					if me.deleted {
						continue
					}
					mv, _ := me.v.(iface)
					if mv.t == nil {
						continue
					}
					m.mapInsert(dst, me.k, copyVal(mv.v))
				}
				cur[i] = dst
				break
			}
			fb, ok1 := ft.Underlying().(*types.Basic)
			vb, ok2 := val.t.Underlying().(*types.Basic)
			if !ok1 || !ok2 || fb.Info()&types.IsString != vb.Info()&types.IsString || fb.Info()&types.IsBoolean != vb.Info()&types.IsBoolean {
				panic(engineErr(fmt.Sprintf("json document stream: member %q of type %v into field of type %v is not modelled", key, val.t, ft)))
			}
			cur[i] = copyVal(val.v)
			break
		}
	}
	store(pt.Elem(), target, cur)
}

func init() {
	zzAPI["YAMLDocs"] = func(fr *frame, a []value) value {
		db := &docBytes{malformedAt: -1, strayAt: -1, yaml: true}
		if l, ok := a[0].([]value); ok {
			for _, d := range l {
				mv, _ := d.(*mapV)
				if mv == nil {
					mv = &mapV{}
				}
				db.docs = append(db.docs, mv)
			}
		}
		return db
	}
	intrinsics["gopkg.in/yaml.v3.NewDecoder"] = func(fr *frame, a []value) (value, bool) {
		return &jsonCodec{rw: a[0]}, true
	}
	intrinsics["(*gopkg.in/yaml.v3.Decoder).Decode"] = func(fr *frame, a []value) (value, bool) {
		c, ok := a[0].(*jsonCodec)
		if !ok {
			panic(engineErr("yaml.Decoder not created by the model"))
		}
		db := docStreamOf(c.rw)
		if db == nil || !db.yaml {
			panic(engineErr("yaml decoding is modelled for zz.YAMLDocs carriers only"))
		}
		if c.pos >= len(db.docs) {
			return fr.m.ioEOF(), true
		}
		fr.m.decodeDocTag(db.docs[c.pos], a[1], "yaml")
		c.pos++
		return iface{}, true
	}
	zzAPI["JSONDocsWithStray"] = func(fr *frame, a []value) value {
		db := &docBytes{malformedAt: concI(a[0], "malformedAt"), strayAt: concI(a[1], "strayAt")}
		if l, ok := a[3].([]value); ok {
			for _, d := range l {
				mv, _ := d.(*mapV)
				if mv == nil {
					mv = &mapV{}
				}
				db.docs = append(db.docs, mv)
			}
		}
		return db
	}
	zzAPI["JSONDocs"] = func(fr *frame, a []value) value {
		db := &docBytes{malformedAt: concI(a[0], "malformedAt"), strayAt: -1}
		if l, ok := a[1].([]value); ok {
			for _, d := range l {
				mv, _ := d.(*mapV)
				if mv == nil {
					mv = &mapV{}
				}
				db.docs = append(db.docs, mv)
			}
		}
		return db
	}
}
