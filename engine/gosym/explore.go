package gosym

// Path exploration by re-execution: a path is identified by the sequence of
// decisions (branch sides, concretised values, map orders, scheduler choices)
// taken at symbolic choice points.  Every path is executed from the start of
// the harness on a fresh machine; decisions of the prefix are replayed without
// solver calls, new decisions ask the solver which alternatives are feasible
// and push the untaken feasible ones onto a shared work stack.

import (
	"fmt"
	"os"
	"sort"
	"strings"
	"sync"
	"time"

	"golang.org/x/tools/go/ssa"
)

type engineErr string

func (e engineErr) Error() string { return string(e) }

// pathEnd terminates the current path (not an error).
type pathEnd struct {
	kind string // "infeasible", "abort", "limit"
	msg  string
}

type decision struct {
	Kind   string   `json:"k"`
	Choice int      `json:"c"`
	N      int      `json:"n,omitempty"`
	Opts   []int64  `json:"o,omitempty"`
	SOpts  []string `json:"s,omitempty"`
}

type KnownFinding struct {
	Property  string `json:"property"`
	Harness   string `json:"harness"`
	AssertTag string `json:"assert_tag"`
	Class     string `json:"class"`
	What      string `json:"what"`
	Repro     string `json:"repro,omitempty"`
}

type Config struct {
	Entry         string
	Params        map[string]int
	MaxPaths      int
	MaxSteps      int // SSA instructions per path
	MaxDecisions  int // decisions per path (unwinding bound)
	Workers       int
	TimeoutMs     int
	SolverBin     string
	SolverArgs    []string
	Known         []KnownFinding
	InitPkgs      map[string]bool // packages whose init is run lazily
	NoopPkgs      []string        // extra no-op package path prefixes
	Trace         bool
	MaxViolModels int
	Deadline      time.Time
	KeepScripts   int // number of obligation scripts kept for cross-checking
	Verbose       bool
	Preempt       int // preemption bound for the thread model (-1 = unbounded)
}

type NondetVal struct {
	Tag   string `json:"tag"`
	Name  string `json:"name"`
	Sort  string `json:"sort"`
	Value string `json:"value"` // decimal int, true/false, or raw string
}

type Violation struct {
	Harness   string      `json:"harness"`
	Tag       string      `json:"tag"`
	Detail    string      `json:"detail,omitempty"`
	Values    []NondetVal `json:"values"`
	Decisions []decision  `json:"decisions"`
	Stack     []string    `json:"stack,omitempty"`
	Confirmed string      `json:"confirmed,omitempty"`
	// Tolerate: assertions that failed earlier on this path only as listed findings (the engine
	// walks past those); the native replay must walk past them too to reach this violation.
	Tolerate []string `json:"tolerate,omitempty"`
}

type PathSample struct {
	Decisions int               `json:"decisions"`
	Steps     int               `json:"steps"`
	Outcome   string            `json:"outcome"`
	Values    []NondetVal       `json:"values,omitempty"`
	Observed  map[string]string `json:"observed,omitempty"`
}

type Result struct {
	mu            sync.Mutex
	Harness       string
	Paths         int
	Steps         int64
	Decisions     int64
	Obligations   int
	Discharged    int
	Violations    []Violation
	ViolCount     map[string]int
	KnownHits     map[string]int // index into cfg.Known (as string) -> hits
	Inconclusive  map[string]int
	Reached       map[string]int
	Bounds        map[string]string
	Functions     map[string]string // name -> pos#hash
	Intrinsics    map[string]int
	Stubs         map[string]int
	NoopCalls     map[string]int
	Samples       []PathSample
	Scripts       []string // standalone obligation scripts (sample)
	ScriptVerdict []string
	SolverCalls   int
	SolverTime    time.Duration
	SolverErrors  []string
	Wall          time.Duration
	Outcomes      map[string]int
	UninitGlobals map[string]int
	MaxDepth      int
	DecisionKinds map[string]int64
	Validation    []PathSample // passing paths with models, for translator validation
}

func newResult(h string) *Result {
	return &Result{Harness: h, ViolCount: map[string]int{}, KnownHits: map[string]int{}, Inconclusive: map[string]int{},
		Reached: map[string]int{}, Bounds: map[string]string{}, Functions: map[string]string{}, Intrinsics: map[string]int{},
		Stubs: map[string]int{}, NoopCalls: map[string]int{}, Outcomes: map[string]int{}, UninitGlobals: map[string]int{}}
}

// Program is the loaded SSA program plus lookup tables shared by all paths.
type Program struct {
	Prog       *ssa.Program
	Stubs      map[string]*ssa.Function // qualified target -> stub function
	Guards     map[string]*ssa.Function // qualified target -> guard (stub applies only when it returns true)
	EngineOnly map[string]bool          // stubs of dependency code (not applied in native replay)
	FuncHash   func(fn *ssa.Function) string
	RepoPath   string
	runtimeES  interface{}
}

type workItem struct {
	prefix []decision
}

// Explore runs the harness entry over all feasible paths within the bounds.
func Explore(p *Program, entry *ssa.Function, cfg Config) *Result {
	res := newResult(cfg.Entry)
	t0 := time.Now()
	if cfg.Workers <= 0 {
		cfg.Workers = 1
	}
	if cfg.MaxPaths <= 0 {
		cfg.MaxPaths = 200000
	}
	if cfg.MaxSteps <= 0 {
		cfg.MaxSteps = 2000000
	}
	if cfg.MaxDecisions <= 0 {
		cfg.MaxDecisions = 2000
	}
	if cfg.TimeoutMs <= 0 {
		cfg.TimeoutMs = 10000
	}
	if cfg.SolverBin == "" {
		cfg.SolverBin = "z3"
		cfg.SolverArgs = []string{"-in"}
	}
	if cfg.MaxViolModels <= 0 {
		cfg.MaxViolModels = 3
	}

	var (
		mu      sync.Mutex
		cond    = sync.NewCond(&mu)
		stack   = []workItem{{}}
		active  = 0
		started = 0
		stop    = false
	)
	var wg sync.WaitGroup
	if os.Getenv("VERIF_PROGRESS") != "" {
		stopProg := make(chan struct{})
		defer close(stopProg)
		go func() {
			for {
				select {
				case <-stopProg:
					return
				case <-time.After(10 * time.Second):
					mu.Lock()
					res.mu.Lock()
					fmt.Fprintf(os.Stderr, "[progress %s] paths=%d pending=%d active=%d steps=%d oblig=%d viol=%v inconcl=%d\n", cfg.Entry, res.Paths, len(stack), active, res.Steps, res.Obligations, res.ViolCount, len(res.Inconclusive))
					res.mu.Unlock()
					mu.Unlock()
				}
			}
		}()
	}
	for w := 0; w < cfg.Workers; w++ {
		wg.Add(1)
		go func(w int) {
			defer wg.Done()
			sol, err := NewSolver(cfg.SolverBin, cfg.SolverArgs, cfg.TimeoutMs)
			if err != nil {
				res.mu.Lock()
				res.Inconclusive["solver-start: "+err.Error()]++
				res.mu.Unlock()
				return
			}
			defer func() {
				res.mu.Lock()
				res.SolverCalls += sol.Calls
				res.SolverTime += sol.Time
				for _, e := range sol.Errors {
					if len(res.SolverErrors) < 10 {
						res.SolverErrors = append(res.SolverErrors, e)
					}
				}
				res.mu.Unlock()
				sol.Close()
			}()
			for {
				mu.Lock()
				for len(stack) == 0 && active > 0 && !stop {
					cond.Wait()
				}
				if stop || (len(stack) == 0 && active == 0) {
					mu.Unlock()
					cond.Broadcast()
					return
				}
				it := stack[len(stack)-1]
				stack = stack[:len(stack)-1]
				active++
				started++
				over := started > cfg.MaxPaths || (!cfg.Deadline.IsZero() && time.Now().After(cfg.Deadline))
				mu.Unlock()

				var alts [][]decision
				if over {
					res.mu.Lock()
					res.Inconclusive["path/time budget exceeded (unexplored alternatives remain)"]++
					res.mu.Unlock()
					mu.Lock()
					stop = true
					active--
					mu.Unlock()
					cond.Broadcast()
					return
				}
				alts = runPath(p, entry, cfg, sol, it.prefix, res)

				mu.Lock()
				for i := len(alts) - 1; i >= 0; i-- {
					stack = append(stack, workItem{alts[i]})
				}
				active--
				mu.Unlock()
				cond.Broadcast()
			}
		}(w)
	}
	wg.Wait()
	res.Wall = time.Since(t0)
	return res
}

// runPath executes one path and returns the new alternative prefixes.
func runPath(p *Program, entry *ssa.Function, cfg Config, sol *Solver, prefix []decision, res *Result) (alts [][]decision) {
	m := newMachine(p, cfg, sol, prefix, res)
	sol.Fresh()
	sol.Push()
	outcome := "done"
	func() {
		defer func() {
			r := recover()
			switch r := r.(type) {
			case nil:
			case pathEnd:
				outcome = r.kind
				if r.kind == "limit" {
					m.inconclusive("UNWIND-EXCEEDED " + r.msg)
				}
			case engineErr:
				outcome = "engine-error"
				m.inconclusive("ENGINE: " + string(r) + m.whereAll())
			case targetPanic:
				outcome = "panic"
				m.targetPanicked(r)
			default:
				outcome = "engine-error"
				m.inconclusive(fmt.Sprintf("ENGINE-CRASH: %v%s", r, m.whereAll()))
			}
		}()
		m.runMain(entry)
	}()
	m.killThreads()
	func() {
		defer func() {
			if r := recover(); r != nil {
				m.inconclusive(fmt.Sprintf("SOLVER-DIED %v", r))
				sol.Restart()
			}
		}()
		if outcome == "engine-error" && sol.cmd.ProcessState != nil {
			panic("process exited")
		}
		for sol.Depth() > 0 {
			sol.Pop()
		}
	}()
	m.finish(outcome)
	return m.alts
}

func (m *machine) finish(outcome string) {
	res := m.res
	res.mu.Lock()
	defer res.mu.Unlock()
	res.Paths++
	res.Steps += int64(m.steps)
	res.Decisions += int64(len(m.trace))
	if len(m.trace) > res.MaxDepth {
		res.MaxDepth = len(m.trace)
	}
	res.Outcomes[outcome]++
	if os.Getenv("VERIF_DUMP_PATH") != "" && fmt.Sprint(res.Paths) == os.Getenv("VERIF_DUMP_PATH") {
		for i, d := range m.trace {
			fmt.Fprintf(os.Stderr, "  decision %d: %s choice=%d n=%d %s\n", i, d.Kind, d.Choice, d.N, m.traceWhere[i])
		}
	}
	if res.DecisionKinds == nil {
		res.DecisionKinds = map[string]int64{}
	}
	if len(m.trace) >= len(m.prefix) {
		for _, d := range m.trace[len(m.prefix):] {
			res.DecisionKinds[d.Kind]++
		}
	}
	if len(m.prefix) > 0 {
		res.DecisionKinds["alt:"+m.prefix[len(m.prefix)-1].Kind]++
	}
	for k, v := range m.bounds {
		res.Bounds[k] = v
	}
	for k := range m.reached {
		res.Reached[k]++
	}
	for k, v := range m.funcs {
		res.Functions[k] = v
	}
	for k, v := range m.intrinsics {
		res.Intrinsics[k] += v
	}
	for k, v := range m.stubCalls {
		res.Stubs[k] += v
	}
	for k, v := range m.noops {
		res.NoopCalls[k] += v
	}
	for k, v := range m.uninit {
		res.UninitGlobals[k] += v
	}
	if len(res.Samples) < 5 || (m.sampleWanted && len(res.Samples) < 12) {
		res.Samples = append(res.Samples, PathSample{Decisions: len(m.trace), Steps: m.steps, Outcome: outcome, Values: m.lastModel, Observed: m.observedStr()})
	}
	if m.validation != nil && !m.hadKnown && len(res.Validation) < 64 {
		res.Validation = append(res.Validation, *m.validation)
	}
}

func (m *machine) observedStr() map[string]string {
	if len(m.observed) == 0 {
		return nil
	}
	out := map[string]string{}
	for _, o := range m.observed {
		out[o.tag] = o.text
	}
	return out
}

func (m *machine) inconclusive(msg string) {
	if len(msg) > 600 {
		msg = msg[:600]
	}
	m.res.mu.Lock()
	m.res.Inconclusive[msg]++
	m.res.mu.Unlock()
}

// ---------------------------------------------------------------------------
// decisions

func (m *machine) recordDecision(d decision) {
	m.trace = append(m.trace, d)
	if os.Getenv("VERIF_DUMP_PATH") != "" {
		w := ""
		if m.cur != nil {
			w = m.cur.name + m.where()
		}
		m.traceWhere = append(m.traceWhere, w)
	}
	if len(m.trace) > m.cfg.MaxDecisions {
		panic(pathEnd{"limit", fmt.Sprintf("more than %d decisions on one path%s", m.cfg.MaxDecisions, m.where())})
	}
}

func (m *machine) replaying() bool { return m.pos < len(m.prefix) }

func (m *machine) nextPrefix(kind string) decision {
	d := m.prefix[m.pos]
	if d.Kind != kind {
		panic(engineErr(fmt.Sprintf("nondeterministic re-execution: expected decision %q got %q at %d%s", d.Kind, kind, m.pos, m.where())))
	}
	m.pos++
	return d
}

func (m *machine) assume(t string) {
	if t == "true" {
		return
	}
	m.pc = append(m.pc, t)
	m.sol.Assert(t)
}

func (m *machine) altWith(d decision) {
	a := make([]decision, len(m.trace)+1)
	copy(a, m.trace)
	a[len(m.trace)] = d
	m.alts = append(m.alts, a)
}

// branch decides a symbolic condition; it returns the side taken on this
// path and schedules the other one when feasible.
func (m *machine) branch(cond string) bool {
	switch cond {
	case "true":
		return true
	case "false":
		return false
	}
	if m.replaying() {
		d := m.nextPrefix("br")
		m.recordDecision(d)
		if d.Choice == 1 {
			m.assume(cond)
			return true
		}
		m.assume(tNot(cond))
		return false
	}
	rT := m.sol.CheckWith(cond)
	if rT == "unsat" {
		m.recordDecision(decision{Kind: "br", Choice: 0})
		m.assume(tNot(cond))
		return false
	}
	if rT == "unknown" {
		m.inconclusive("INCONCLUSIVE solver unknown on branch feasibility" + m.where())
	}
	rF := m.sol.CheckWith(tNot(cond))
	if rF == "unsat" {
		m.recordDecision(decision{Kind: "br", Choice: 1})
		m.assume(cond)
		return true
	}
	if rF == "unknown" {
		m.inconclusive("INCONCLUSIVE solver unknown on branch feasibility" + m.where())
	}
	m.altWith(decision{Kind: "br", Choice: 0})
	m.recordDecision(decision{Kind: "br", Choice: 1})
	m.assume(cond)
	return true
}

// chooseN picks one of n alternatives, option i being constrained by
// cons(i) ("true" = unconstrained).  All feasible alternatives are explored.
func (m *machine) chooseN(kind string, n int, cons func(i int) string) int {
	if n <= 0 {
		panic(engineErr("chooseN with no options"))
	}
	if m.replaying() {
		d := m.nextPrefix(kind)
		m.recordDecision(d)
		m.assume(cons(d.Choice))
		return d.Choice
	}
	var feas []int
	for i := 0; i < n; i++ {
		c := cons(i)
		if c == "false" {
			continue
		}
		if c == "true" {
			feas = append(feas, i)
			continue
		}
		r := m.sol.CheckWith(c)
		if r == "unknown" {
			m.inconclusive("INCONCLUSIVE solver unknown on choice feasibility" + m.where())
		}
		if r != "unsat" {
			feas = append(feas, i)
		}
	}
	if len(feas) == 0 {
		panic(pathEnd{"infeasible", "no feasible option"})
	}
	for _, j := range feas[1:] {
		m.altWith(decision{Kind: kind, Choice: j, N: n})
	}
	m.recordDecision(decision{Kind: kind, Choice: feas[0], N: n})
	m.assume(cons(feas[0]))
	return feas[0]
}

// concretize forks over all feasible values of a symbolic integer
// (at most maxVals, else the path is cut as an unwinding failure).
func (m *machine) concretize(x *symv, why string) int64 {
	const maxVals = 64
	if m.replaying() {
		d := m.nextPrefix("val")
		m.recordDecision(d)
		v := d.Opts[d.Choice]
		m.assume("(= " + x.t + " " + smtInt(v) + ")")
		return v
	}
	var vals []int64
	m.sol.Push()
	for {
		r := m.sol.Check()
		if r == "unsat" {
			break
		}
		if r == "unknown" {
			m.sol.Pop()
			m.inconclusive("INCONCLUSIVE solver unknown while concretising " + why + m.where())
			panic(pathEnd{"abort", "unknown"})
		}
		vs, err := m.sol.GetValues([]string{x.t})
		if err != nil {
			m.sol.Pop()
			panic(engineErr(err.Error()))
		}
		v, ok := parseSmtInt(vs[0])
		if !ok {
			m.sol.Pop()
			panic(engineErr("concretize: cannot parse " + vs[0]))
		}
		vals = append(vals, v)
		if len(vals) > maxVals {
			m.sol.Pop()
			panic(pathEnd{"limit", fmt.Sprintf("symbolic %s has more than %d feasible values%s", why, maxVals, m.where())})
		}
		m.sol.Assert("(not (= " + x.t + " " + smtInt(v) + "))")
	}
	m.sol.Pop()
	if len(vals) == 0 {
		panic(pathEnd{"infeasible", "concretize: no value"})
	}
	sort.Slice(vals, func(i, j int) bool { return vals[i] < vals[j] })
	for j := 1; j < len(vals); j++ {
		m.altWith(decision{Kind: "val", Choice: j, Opts: vals})
	}
	m.recordDecision(decision{Kind: "val", Choice: 0, Opts: vals})
	m.assume("(= " + x.t + " " + smtInt(vals[0]) + ")")
	return vals[0]
}

// ---------------------------------------------------------------------------
// nondeterministic inputs

func (m *machine) fresh(tag string, s smtSort) string {
	m.nvars++
	name := fmt.Sprintf("v%d_%s", m.nvars, sanitize(tag))
	m.sol.Declare(name, s)
	m.nondets = append(m.nondets, NondetVal{Tag: tag, Name: name, Sort: s.String()})
	return name
}

// freshAux declares a solver constant that is not a harness input.
func (m *machine) freshAux(tag string, s smtSort) string {
	m.nvars++
	name := fmt.Sprintf("a%d_%s", m.nvars, sanitize(tag))
	m.sol.Declare(name, s)
	return name
}

func sanitize(s string) string {
	var b strings.Builder
	for _, c := range s {
		if c >= 'a' && c <= 'z' || c >= 'A' && c <= 'Z' || c >= '0' && c <= '9' || c == '_' {
			b.WriteRune(c)
		} else {
			b.WriteByte('_')
		}
	}
	return b.String()
}

// model returns the values of all nondet inputs in the solver's current model.
func (m *machine) model() []NondetVal {
	out := make([]NondetVal, len(m.nondets))
	copy(out, m.nondets)
	terms := make([]string, len(out))
	for i := range out {
		terms[i] = out[i].Name
	}
	vals, err := m.sol.GetValues(terms)
	if err != nil {
		m.inconclusive("ENGINE: model extraction failed: " + err.Error())
		return nil
	}
	for i := range out {
		out[i].Value = modelText(out[i].Sort, vals[i])
	}
	return out
}

func modelText(srt, raw string) string {
	switch srt {
	case "Int":
		if n, ok := parseSmtInt(raw); ok {
			return fmt.Sprint(n)
		}
	case "String":
		if s, ok := parseSmtString(raw); ok {
			return s
		}
	case "Real":
		return raw
	}
	return raw
}

// ---------------------------------------------------------------------------
// obligations

func (m *machine) obligation(cond value, tag string) {
	c, isConc, term := boolVal(cond)
	if m.replaying() {
		// already decided by the ancestor path that created this prefix
		if isConc && !c {
			// The ancestor path went on after this assertion (the prefix has decisions behind
			// it), so the failure was only a listed finding there: go on here as well.
			m.knownPassed = append(m.knownPassed, tag)
			return
		}
		m.assume(term)
		return
	}
	m.res.mu.Lock()
	m.res.Obligations++
	m.res.mu.Unlock()
	if sv, ok := cond.(*symv); ok && sv.opaque {
		m.inconclusive("IMPRECISE opaque value reached assertion " + tag + m.where())
		return
	}
	if isConc && c {
		m.discharged()
		return
	}
	var r string
	if isConc {
		r = "sat" // pc is satisfiable on every explored path
	} else {
		r = m.sol.CheckWith(tNot(term))
		m.keepScript(tNot(term), r, tag)
	}
	switch r {
	case "unsat":
		m.discharged()
		m.assume(term)
		return
	case "unknown":
		m.inconclusive("INCONCLUSIVE solver unknown on assertion " + tag + m.where())
		m.assume(term)
		return
	}
	isNew := m.violated(tag, tNot(term), "")
	if isConc {
		if !isNew {
			// only a listed finding: keep exploring the rest of the path
			m.knownPassed = append(m.knownPassed, tag)
			return
		}
		panic(pathEnd{"abort", "assertion " + tag + " failed"})
	}
	if m.sol.CheckWith(term) != "sat" {
		panic(pathEnd{"abort", "assertion " + tag + " failed on the whole path"})
	}
	m.assume(term)
}

func (m *machine) discharged() {
	m.res.mu.Lock()
	m.res.Discharged++
	m.res.mu.Unlock()
}

func (m *machine) keepScript(extra, verdict, tag string) {
	if m.cfg.KeepScripts <= 0 {
		return
	}
	m.res.mu.Lock()
	n := len(m.res.Scripts)
	m.res.mu.Unlock()
	if n >= m.cfg.KeepScripts {
		return
	}
	sc := "; obligation " + tag + " expected " + verdict + "\n" + m.sol.Script(extra)
	m.res.mu.Lock()
	if len(m.res.Scripts) < m.cfg.KeepScripts {
		m.res.Scripts = append(m.res.Scripts, sc)
		m.res.ScriptVerdict = append(m.res.ScriptVerdict, verdict)
	}
	m.res.mu.Unlock()
}

// violated handles a failed obligation: negTerm is satisfiable with the pc.
func (m *machine) violated(tag, negTerm, detail string) (isNew bool) {
	// known classes for this tag
	residual := negTerm
	type hit struct {
		idx  int
		term string
	}
	var cands []hit
	for i, k := range m.cfg.Known {
		if k.Harness != m.cfg.Entry || !tagMatch(k.AssertTag, tag) {
			continue
		}
		ct, ok := m.classes[k.Class]
		if !ok {
			continue
		}
		cands = append(cands, hit{i, ct})
		residual = tAnd(residual, tNot(ct))
	}
	for _, h := range cands {
		t := tAnd(negTerm, h.term)
		if t == "false" {
			continue
		}
		if t == "true" || m.sol.CheckWith(t) == "sat" {
			m.res.mu.Lock()
			m.res.KnownHits[fmt.Sprint(h.idx)]++
			m.res.mu.Unlock()
		}
	}
	if len(cands) > 0 {
		m.hadKnown = true
		if residual == "false" {
			return false
		}
		if residual != "true" {
			r := m.sol.CheckWith(residual)
			if r == "unsat" {
				return false
			}
			if r == "unknown" {
				m.inconclusive("INCONCLUSIVE solver unknown on known-finding residual " + tag)
				return false
			}
		}
	}
	// a violation outside all known classes: extract its model
	m.sol.Push()
	m.sol.Assert(residual)
	var vals []NondetVal
	if m.sol.Check() == "sat" {
		vals = m.model()
	}
	m.sol.Pop()
	m.lastModel = vals
	m.sampleWanted = true
	v := Violation{Harness: m.cfg.Entry, Tag: tag, Detail: detail, Values: vals, Stack: m.stack(), Tolerate: append([]string(nil), m.knownPassed...)}
	if tag == "panic" && m.panicStack != nil {
		v.Stack = m.panicStack
	}
	v.Decisions = append(v.Decisions, m.trace...)
	m.res.mu.Lock()
	m.res.ViolCount[tag]++
	if m.res.ViolCount[tag] <= m.cfg.MaxViolModels {
		m.res.Violations = append(m.res.Violations, v)
	}
	m.res.mu.Unlock()
	return true
}

func tagMatch(pat, tag string) bool {
	if strings.HasSuffix(pat, "*") {
		return strings.HasPrefix(tag, strings.TrimSuffix(pat, "*"))
	}
	return pat == tag
}

func (m *machine) targetPanicked(p targetPanic) {
	msg := m.panicText(p)
	if m.replaying() {
		return
	}
	m.res.mu.Lock()
	m.res.Obligations++
	m.res.mu.Unlock()
	m.violated("panic", "true", msg)
}

// pathModel stores a model of the completed path (for samples and translator
// validation).
func (m *machine) pathModel() {
	if len(m.nondets) == 0 {
		return
	}
	if m.sol.Check() == "sat" {
		m.lastModel = m.model()
		// evaluate symbolic observations under the same model
		var terms []string
		var idx []int
		for i, o := range m.observed {
			for j, t := range o.terms {
				_ = j
				terms = append(terms, t)
				idx = append(idx, i)
			}
		}
		obs := map[string]string{}
		if vals, err := m.sol.GetValues(terms); err == nil {
			k := 0
			for _, o := range m.observed {
				parts := make([]string, len(o.terms))
				for j := range o.terms {
					parts[j] = renderModelValue(o.sorts[j], vals[k])
					k++
				}
				obs[o.tag] = o.render(parts)
			}
		}
		m.validation = &PathSample{Decisions: len(m.trace), Steps: m.steps, Outcome: "done", Values: m.lastModel, Observed: obs}
	}
}
