package gosym

// A model file system for the os / path/filepath calls the kernels make
// (temporary files of a hook execution, the hooks directory walk).  Native
// replay uses the real file system under a temporary directory; translator
// validation compares the two.
//
// Nodes have concrete kind (file/dir) and parent; names, modes and contents
// may be symbolic (table-valued).  filepath.Walk visits entries in lexical
// order of their names (forking on symbolic comparisons) and honours SkipDir.

import (
	"fmt"
	"go/token"
	"go/types"
	"path/filepath"
	"sort"
	"strings"
)

type fsNode struct {
	parent  *fsNode
	name    value // string or table-valued *symv
	isDir   bool
	mode    value // permission bits (uint32)
	content value // []value of bytes, or symBytes, for files
	kids    []*fsNode
	gone    bool
}

type fsModel struct {
	root *fsNode
	tmpN int
	ops  []string
}

func (m *machine) fs() *fsModel {
	if m.fsm == nil {
		m.fsm = &fsModel{root: &fsNode{name: "", isDir: true, mode: uint32(0o755)}}
	}
	return m.fsm
}

func (m *machine) fsPath(n *fsNode) value {
	if n.parent == nil {
		return ""
	}
	p := m.fsPath(n.parent)
	return m.binopStr(token.ADD, m.binopStr(token.ADD, p, "/"), n.name)
}

// fsLookup finds the node with the given (possibly symbolic) path, forking on
// symbolic name comparisons.  Paths are slash separated and absolute.
func (m *machine) fsLookup(path value) *fsNode {
	if s, ok := path.(string); ok {
		s = filepath.Clean(s)
		if s == "/" {
			return m.fs().root
		}
		parts := strings.Split(strings.TrimPrefix(s, "/"), "/")
		cur := m.fs().root
		for _, p := range parts {
			var next *fsNode
			for _, k := range cur.kids {
				if !k.gone && m.equals(types.Typ[types.String], k.name, p) {
					next = k
					break
				}
			}
			if next == nil {
				return nil
			}
			cur = next
		}
		return cur
	}
	// symbolic path: compare with the full path of every node
	var found *fsNode
	var walk func(n *fsNode) bool
	walk = func(n *fsNode) bool {
		if n.gone {
			return false
		}
		if n.parent != nil && m.equals(types.Typ[types.String], m.fsPath(n), path) {
			found = n
			return true
		}
		for _, k := range n.kids {
			if walk(k) {
				return true
			}
		}
		return false
	}
	walk(m.fs().root)
	return found
}

// fsSplit returns the parent node and base name for a path to be created.
func (m *machine) fsSplit(path value) (*fsNode, value) {
	if s, ok := path.(string); ok {
		s = filepath.Clean(s)
		dir, base := filepath.Dir(s), filepath.Base(s)
		return m.fsLookup(dir), base
	}
	// symbolic: the parent is the node whose path + "/" is a prefix and the rest has no slash
	var parent *fsNode
	var base value
	var walk func(n *fsNode) bool
	walk = func(n *fsNode) bool {
		if n.gone || !n.isDir {
			return false
		}
		for _, k := range n.kids {
			if walk(k) {
				return true
			}
		}
		pfx := m.binopStr(token.ADD, m.fsPath(n), "/")
		hp, _ := intrinsics["strings.HasPrefix"](&frame{m: m}, []value{path, pfx})
		rest, _ := intrinsics["strings.TrimPrefix"](&frame{m: m}, []value{path, pfx})
		hs, _ := intrinsics["strings.Contains"](&frame{m: m}, []value{rest, "/"})
		_, _, hpT := boolVal(hp)
		_, _, hsT := boolVal(hs)
		if m.branch(tAnd(hpT, tNot(hsT))) {
			parent, base = n, rest
			return true
		}
		return false
	}
	walk(m.fs().root)
	return parent, base
}

func (m *machine) errIface(msg string) iface {
	t := m.namedType("errors", "errorString")
	var cell value = structure{msg}
	return iface{t: types.NewPointer(t), v: &cell}
}

func (m *machine) notExistErr() iface {
	if p := m.prog.ImportedPackage("io/fs"); p != nil {
		if g := p.Var("ErrNotExist"); g != nil {
			if v, ok := load(mustDeref(g.Type()), m.global(g)).(iface); ok && v.t != nil {
				return v
			}
		}
	}
	if m.errNotExist.t == nil {
		m.errNotExist = m.errIface("file does not exist")
	}
	return m.errNotExist
}

// fileInfo is the engine's os.FileInfo.
type fileInfo struct {
	m *machine
	n *fsNode
}

func (fi *fileInfo) callMethod(fr *frame, name string, args []value) value {
	switch name {
	case "Name":
		return fi.n.name
	case "IsDir":
		return fi.n.isDir
	case "Mode":
		if fi.n.isDir {
			return fi.m.binop(token.OR, types.Typ[types.Uint32], fi.n.mode, uint32(1<<31))
		}
		return fi.n.mode
	case "Size":
		return int64(0)
	case "ModTime":
		return zero(fi.m.namedType("time", "Time"))
	case "Sys":
		return iface{}
	}
	panic(engineErr("FileInfo method " + name))
}

func (m *machine) fileInfoIface(n *fsNode) value {
	t := types.NewPointer(m.namedType("os", "fileStat"))
	return iface{t: t, v: &fileInfo{m: m, n: n}}
}

func bytesOf(v value) value {
	switch v.(type) {
	case []value, *symBytes:
		return v
	}
	return v
}

func init() {
	in := func(name string, f libIntrinsic) { intrinsics[name] = f }
	// internal/bytealg.IndexByte is assembly: concrete bytes only
	in("internal/bytealg.IndexByte", func(fr *frame, a []value) (value, bool) {
		b, ok := a[0].([]value)
		if !ok {
			return nil, false
		}
		c, ok := a[1].(uint8)
		if !ok {
			return nil, false
		}
		for i, x := range b {
			xb, isB := x.(uint8)
			if !isB {
				return nil, false
			}
			if xb == c {
				return i, true
			}
		}
		return -1, true
	})
	in("os.MkdirTemp", func(fr *frame, a []value) (value, bool) {
		m := fr.m
		f := m.fs()
		f.tmpN++
		name := fmt.Sprintf("zztmp%d", f.tmpN)
		n := &fsNode{parent: f.root, name: name, isDir: true, mode: uint32(0o700)}
		f.root.kids = append(f.root.kids, n)
		return tuple{"/" + name, iface{}}, true
	})
	mkdir := func(fr *frame, a []value) (value, bool) {
		m := fr.m
		if n := m.fsLookup(a[0]); n != nil {
			return iface{}, true
		}
		parent, base := m.fsSplit(a[0])
		if parent == nil {
			return m.notExistErr(), true
		}
		n := &fsNode{parent: parent, name: base, isDir: true, mode: a[1]}
		parent.kids = append(parent.kids, n)
		return iface{}, true
	}
	in("os.Mkdir", mkdir)
	in("os.MkdirAll", mkdir)
	in("os.WriteFile", func(fr *frame, a []value) (value, bool) {
		m := fr.m
		if n := m.fsLookup(a[0]); n != nil {
			if n.isDir {
				return m.errIface("is a directory"), true
			}
			n.content = a[1]
			return iface{}, true
		}
		parent, base := m.fsSplit(a[0])
		if parent == nil || !parent.isDir {
			return m.notExistErr(), true
		}
		n := &fsNode{parent: parent, name: base, mode: a[2], content: a[1]}
		parent.kids = append(parent.kids, n)
		return iface{}, true
	})
	in("os.Chmod", func(fr *frame, a []value) (value, bool) {
		n := fr.m.fsLookup(a[0])
		if n == nil {
			return fr.m.notExistErr(), true
		}
		n.mode = a[1]
		return iface{}, true
	})
	in("os.Remove", func(fr *frame, a []value) (value, bool) {
		m := fr.m
		n := m.fsLookup(a[0])
		if n == nil || n.parent == nil {
			return m.notExistErr(), true
		}
		n.gone = true
		return iface{}, true
	})
	// filepath.Glob with a concrete pattern whose directory part has no meta characters:
	// the entries of that directory whose (concrete) names match, in lexical order
	intrinsics["path/filepath.Glob"] = func(fr *frame, a []value) (value, bool) {
		m := fr.m
		pat, ok := a[0].(string)
		if !ok {
			pat = m.concretizeStr(a[0])
		}
		dir, last := filepath.Dir(pat), filepath.Base(pat)
		if strings.ContainsAny(dir, "*?[\\") {
			panic(engineErr("filepath.Glob with meta characters in the directory part is not modelled"))
		}
		if _, err := filepath.Match(last, ""); err != nil {
			return tuple{[]value(nil), m.errIface("syntax error in pattern")}, true
		}
		d := m.fsLookup(dir)
		var names []string
		if d != nil && d.isDir {
			for _, k := range d.kids {
				if k.gone {
					continue
				}
				name, ok := k.name.(string)
				if !ok {
					name = m.concretizeStr(k.name)
				}
				if ok, _ := filepath.Match(last, name); ok {
					names = append(names, name)
				}
			}
		}
		sort.Strings(names)
		out := make([]value, len(names))
		for i, n := range names {
			out[i] = filepath.Join(dir, n)
		}
		return tuple{out, iface{}}, true
	}
	in("os.RemoveAll", func(fr *frame, a []value) (value, bool) {
		if n := fr.m.fsLookup(a[0]); n != nil && n.parent != nil {
			n.gone = true
		}
		return iface{}, true
	})
	in("os.ReadFile", func(fr *frame, a []value) (value, bool) {
		m := fr.m
		n := m.fsLookup(a[0])
		if n == nil || n.isDir {
			return tuple{[]value(nil), m.notExistErr()}, true
		}
		c := n.content
		if c == nil {
			c = []value{}
		}
		if sl, ok := c.([]value); ok {
			c = append([]value{}, sl...)
		}
		return tuple{c, iface{}}, true
	})
	stat := func(fr *frame, a []value) (value, bool) {
		m := fr.m
		n := m.fsLookup(a[0])
		if n == nil {
			return tuple{iface{}, m.notExistErr()}, true
		}
		return tuple{m.fileInfoIface(n), iface{}}, true
	}
	in("os.Stat", stat)
	in("os.Lstat", stat)
	in("os.IsNotExist", func(fr *frame, a []value) (value, bool) {
		e := a[0].(iface)
		if e.t == nil {
			return false, true
		}
		ne := fr.m.notExistErr()
		return sameType(e.t, ne.t) && e.v == ne.v, true
	})
	in("os.Environ", func(fr *frame, a []value) (value, bool) { return []value{}, true })
	in("os.Setenv", func(fr *frame, a []value) (value, bool) {
		fr.m.notes["env:"+concStr(a[0], "env key")] = a[1]
		return iface{}, true
	})
	in("path/filepath.Walk", func(fr *frame, a []value) (value, bool) {
		m := fr.m
		root := m.fsLookup(a[0])
		fn := a[1]
		skipDir := func() iface {
			p := m.prog.ImportedPackage("io/fs")
			g := p.Var("SkipDir")
			return load(mustDeref(g.Type()), m.global(g)).(iface)
		}
		if root == nil {
			r := call(m, fr, token.NoPos, fn, []value{a[0], iface{}, m.notExistErr()})
			return r, true
		}
		isSkip := func(e iface) bool {
			if e.t == nil {
				return false
			}
			s := skipDir()
			return sameType(e.t, s.t) && e.v == s.v
		}
		var walk func(n *fsNode, path value) iface
		walk = func(n *fsNode, path value) iface {
			r := call(m, fr, token.NoPos, fn, []value{path, m.fileInfoIface(n), iface{}}).(iface)
			if r.t != nil {
				return r
			}
			if !n.isDir {
				return iface{}
			}
			// children in lexical order of their names
			var kids []*fsNode
			for _, k := range n.kids {
				if !k.gone {
					kids = append(kids, k)
				}
			}
			for i := 1; i < len(kids); i++ {
				for j := i; j > 0; j-- {
					lt := m.binop(token.LSS, types.Typ[types.String], kids[j].name, kids[j-1].name)
					b, isConc, term := boolVal(lt)
					if !isConc {
						b = m.branch(term)
					}
					if !b {
						break
					}
					kids[j], kids[j-1] = kids[j-1], kids[j]
				}
			}
			for _, k := range kids {
				kp := m.binopStr(token.ADD, m.binopStr(token.ADD, path, "/"), k.name)
				e := walk(k, kp)
				if e.t != nil {
					if isSkip(e) && k.isDir {
						continue
					}
					if isSkip(e) {
						// SkipDir returned for a file: skip the remaining files of this directory
						return iface{}
					}
					return e
				}
			}
			return iface{}
		}
		e := walk(root, a[0])
		if isSkip(e) {
			return iface{}, true
		}
		return e, true
	})
	// pure path helpers
	intrinsics["path/filepath.Join"] = func(fr *frame, a []value) (value, bool) {
		elems := a[0].([]value)
		allConc := true
		for _, e := range elems {
			if _, ok := e.(string); !ok {
				allConc = false
			}
		}
		f := func(c []value) (value, bool) {
			ss := make([]string, len(c))
			for i := range c {
				ss[i] = c[i].(string)
			}
			return filepath.Join(ss...), true
		}
		if allConc {
			r, _ := f(elems)
			return r, true
		}
		if r, _, ok := fr.m.lift(elems, f); ok {
			return r, true
		}
		panic(engineErr("filepath.Join on unbounded symbolic strings"))
	}
	for name, f := range map[string]func(c []value) value{
		"path/filepath.Ext":   func(c []value) value { return filepath.Ext(c[0].(string)) },
		"path/filepath.Base":  func(c []value) value { return filepath.Base(c[0].(string)) },
		"path/filepath.Dir":   func(c []value) value { return filepath.Dir(c[0].(string)) },
		"path/filepath.Clean": func(c []value) value { return filepath.Clean(c[0].(string)) },
		"path.Dir":            func(c []value) value { return filepath.Dir(c[0].(string)) },
		"path.Base":           func(c []value) value { return filepath.Base(c[0].(string)) },
		"path.Ext":            func(c []value) value { return filepath.Ext(c[0].(string)) },
		"github.com/kennygrant/sanitize.BaseName": nil,
	} {
		if f == nil {
			continue
		}
		name, f := name, f
		intrinsics[name] = func(fr *frame, a []value) (value, bool) {
			if s, ok := a[0].(string); ok {
				return f([]value{s}), true
			}
			if r, _, ok := fr.m.lift(a, func(c []value) (value, bool) { return f(c), true }); ok {
				return r, true
			}
			panic(engineErr(name + " on an unbounded symbolic string: " + toString(a[0])))
		}
	}
	intrinsics["path/filepath.Rel"] = func(fr *frame, a []value) (value, bool) {
		f := func(c []value) (value, bool) {
			r, err := filepath.Rel(c[0].(string), c[1].(string))
			if err != nil {
				return nil, false
			}
			return r, true
		}
		if isConcScalar(a[0]) && isConcScalar(a[1]) {
			r, ok := f(a)
			if !ok {
				return tuple{"", fr.m.errIface("Rel: can't make relative")}, true
			}
			return tuple{r, iface{}}, true
		}
		r, errT, ok := fr.m.lift(a, f)
		if !ok {
			panic(engineErr("filepath.Rel on unbounded symbolic strings"))
		}
		if errT != "false" && fr.m.branch(errT) {
			return tuple{"", fr.m.errIface("Rel: can't make relative")}, true
		}
		return tuple{r, iface{}}, true
	}
}
