package gosym

// Engine-level models of runtime / standard-library pieces.  An intrinsic may
// decline (ok=false): the real SSA body is then interpreted.

import (
	"fmt"
	"go/token"
	"go/types"
	"sort"
	"strconv"
	"strings"

	"golang.org/x/tools/go/ssa"
)

type libIntrinsic func(fr *frame, args []value) (value, bool)

var intrinsics = map[string]libIntrinsic{}

func anySym(args ...value) bool {
	for _, a := range args {
		if isSym(a) {
			return true
		}
	}
	return false
}

func init() {
	base := map[string]libIntrinsic{
		"strings.HasPrefix":  inStrPred("str.prefixof", true),
		"strings.HasSuffix":  inStrPred("str.suffixof", true),
		"strings.Contains":   inStrPred("str.contains", false),
		"strings.Index":      inStrIndex,
		"strings.IndexRune":  inStrIndexRune,
		"strings.IndexByte":  inStrIndexRune,
		"strings.LastIndex":  inConcOnly,
		"strings.TrimPrefix": inTrimPrefix,
		"strings.TrimSuffix": inTrimSuffix,
		"strings.ToLower":    inConcOnly,
		"strings.Split":      inSplit,
		"strings.Join":       inJoin,
		"strings.Replace":    inReplace,
		"strings.ReplaceAll": inReplaceAll,
		"strings.EqualFold":  inConcOnly,
		"strings.TrimSpace":  inConcOnly,
		"strings.Compare":    inConcOnly,
		"strconv.Itoa":       inItoa,
		"fmt.Sprintf":        inSprintf,
		"fmt.Errorf":         inErrorf,
		"fmt.Sprint":         inSprint,
		"fmt.Println":        inNop,
		"fmt.Printf":         inNop,
		"fmt.Fprintf":        inNop,
		"fmt.Fprintln":       inNop,
		"errors.Is":          inErrorsIs,
		"errors.As":          inErrorsAs,

		"internal/reflectlite.ValueOf":     inRLValueOf,
		"(internal/reflectlite.Value).Len": inRLLen,
		"internal/reflectlite.Swapper":     inRLSwapper,
		"reflect.ValueOf":                  inRLValueOf,
		"(reflect.Value).Len":              inRLLen,
		"reflect.Swapper":                  inRLSwapper,
		"reflect.DeepEqual":                inDeepEqual,

		"(*sync.Mutex).Lock":      func(fr *frame, a []value) (value, bool) { fr.m.mutexLock(a[0].(*value)); return nil, true },
		"(*sync.Mutex).Unlock":    func(fr *frame, a []value) (value, bool) { fr.m.mutexUnlock(a[0].(*value)); return nil, true },
		"(*sync.Mutex).TryLock":   func(fr *frame, a []value) (value, bool) { return fr.m.mutexTryLock(a[0].(*value)), true },
		"(*sync.RWMutex).Lock":    func(fr *frame, a []value) (value, bool) { fr.m.mutexLock(a[0].(*value)); return nil, true },
		"(*sync.RWMutex).Unlock":  func(fr *frame, a []value) (value, bool) { fr.m.mutexUnlock(a[0].(*value)); return nil, true },
		"(*sync.RWMutex).RLock":   func(fr *frame, a []value) (value, bool) { fr.m.rwRLock(a[0].(*value)); return nil, true },
		"(*sync.RWMutex).RUnlock": func(fr *frame, a []value) (value, bool) { fr.m.rwRUnlock(a[0].(*value)); return nil, true },
		"(*sync.Once).Do":         inOnceDo,
		"(*sync.WaitGroup).Add":   inWGAdd,
		"(*sync.WaitGroup).Done":  inWGDone,
		"(*sync.WaitGroup).Wait":  inWGWait,
		"(*sync.WaitGroup).Go":    inWGGo,

		"context.Background":   func(fr *frame, a []value) (value, bool) { return fr.m.newCtx(nil), true },
		"context.TODO":         func(fr *frame, a []value) (value, bool) { return fr.m.newCtx(nil), true },
		"context.WithCancel":   inWithCancel,
		"context.WithTimeout":  inWithTimeout,
		"context.WithDeadline": inWithTimeout,
		"context.WithValue":    inWithValue,
		"(*sync.Pool).Get":     inPoolGet,
		"(*sync.Pool).Put":     func(fr *frame, a []value) (value, bool) { return nil, true },

		"time.Now":                inTimeNow,
		"time.Since":              inTimeSince,
		"(time.Time).Sub":         inTimeSub,
		"(time.Time).Add":         inTimeAdd,
		"(time.Time).Before":      inTimeCmp(token.LSS),
		"(time.Time).After":       inTimeCmp(token.GTR),
		"(time.Time).Equal":       inTimeCmp(token.EQL),
		"(time.Time).IsZero":      inTimeIsZero,
		"(time.Duration).Seconds": inDurFloat("1000000000.0"),
		"(time.Duration).Minutes": inDurFloat("60000000000.0"),
		"(time.Duration).Hours":   inDurFloat("3600000000000.0"),
		"(time.Duration).String": func(fr *frame, a []value) (value, bool) {
			if !isSym(a[0]) {
				return nil, false
			}
			return fr.m.opaqueStr("symbolic duration text"), true
		},
		"time.Sleep": func(fr *frame, a []value) (value, bool) {
			fr.m.cur.sleptSinceDone = true
			fr.m.schedPoint("sleep")
			return nil, true
		},
		"time.NewTicker":       inNewTicker,
		"(*time.Ticker).Stop":  inNop,
		"(*time.Ticker).Reset": inNop,
		"time.After":           inTimeAfter,
		"time.NewTimer":        inNewTicker,
		"(*time.Timer).Stop":   func(fr *frame, a []value) (value, bool) { return true, true },

		"math/rand/v2.Int64N": inRandInt64N,
		"math/rand/v2.IntN":   inRandInt64N,
		"math/rand.Int63n":    inRandInt64N,
		"math/rand.Intn":      inRandInt64N,

		"github.com/gofrs/uuid/v5.NewV4": inUUIDNewV4,
		"os.Getenv":                      inGetenv,
		"gopkg.in/robfig/cron.v2.Parse": func(fr *frame, a []value) (value, bool) {
			// model of the crontab grammar's outer shape: 5 or 6 whitespace separated
			// fields or an @descriptor (the field grammar itself is robfig/cron's business);
			// native replay uses the real parser
			spec, ok := a[0].(string)
			if !ok {
				spec = fr.m.concretizeStr(a[0])
			}
			nf := len(strings.Fields(spec))
			if !(strings.HasPrefix(spec, "@") || nf == 5 || nf == 6) {
				return tuple{iface{}, fr.m.errIface("Expected 5 or 6 fields, found " + strconv.Itoa(nf) + ": " + spec)}, true
			}
			t := fr.m.namedType("gopkg.in/robfig/cron.v2", "SpecSchedule")
			cell := zero(t)
			return tuple{iface{t: types.NewPointer(t), v: &cell}, iface{}}, true
		},
		"runtime.Gosched":      func(fr *frame, a []value) (value, bool) { fr.m.schedPoint("gosched"); return nil, true },
		"runtime.SetFinalizer": inNop,
		"runtime.KeepAlive":    inNop,
	}
	for k, v := range base {
		intrinsics[k] = v
	}
	addAtomics()
}

func inNop(fr *frame, args []value) (value, bool) {
	return zeroResults(fr.fn.Signature), true
}

var nativeByName = map[string]func(c []value) value{
	"strings.ToLower":   func(c []value) value { return strings.ToLower(c[0].(string)) },
	"strings.ToUpper":   func(c []value) value { return strings.ToUpper(c[0].(string)) },
	"strings.TrimSpace": func(c []value) value { return strings.TrimSpace(c[0].(string)) },
	"strings.EqualFold": func(c []value) value { return strings.EqualFold(c[0].(string), c[1].(string)) },
	"strings.Compare":   func(c []value) value { return strings.Compare(c[0].(string), c[1].(string)) },
	"strings.LastIndex": func(c []value) value { return strings.LastIndex(c[0].(string), c[1].(string)) },
}

// inConcOnly: interpret the real body on concrete arguments, lift over tables,
// and refuse other symbolic arguments loudly.
func inConcOnly(fr *frame, args []value) (value, bool) {
	if anySym(args...) {
		if f := nativeByName[fr.fn.String()]; f != nil {
			if r, ok := liftStr(fr, args, f); ok {
				return r, true
			}
		}
		panic(engineErr(fr.fn.String() + " on symbolic arguments is not modelled"))
	}
	return nil, false
}

// liftStr evaluates a pure string function natively per assignment when all
// operands are concrete or table-valued.
func liftStr(fr *frame, args []value, f func(c []value) value) (value, bool) {
	for _, a := range args {
		if !(isConcScalar(a) || tblOf(a) != nil) {
			return nil, false
		}
	}
	r, _, ok := fr.m.lift(args, func(c []value) (value, bool) { return f(c), true })
	return r, ok
}

var nativeStrFns = map[string]func(c []value) value{
	"str.prefixof": func(c []value) value { return strings.HasPrefix(c[0].(string), c[1].(string)) },
	"str.suffixof": func(c []value) value { return strings.HasSuffix(c[0].(string), c[1].(string)) },
	"str.contains": func(c []value) value { return strings.Contains(c[0].(string), c[1].(string)) },
}

func inStrPred(op string, patFirst bool) libIntrinsic {
	return func(fr *frame, args []value) (value, bool) {
		if !anySym(args...) {
			return nil, false
		}
		if r, ok := liftStr(fr, args, nativeStrFns[op]); ok {
			return r, true
		}
		s, p := termOf(args[0]), termOf(args[1])
		if patFirst {
			return mkBoolV("(" + op + " " + p + " " + s + ")"), true
		}
		return mkBoolV("(" + op + " " + s + " " + p + ")"), true
	}
}

func inStrIndex(fr *frame, args []value) (value, bool) {
	if !anySym(args...) {
		return nil, false
	}
	if r, ok := liftStr(fr, args, func(c []value) value { return strings.Index(c[0].(string), c[1].(string)) }); ok {
		return r, true
	}
	_, h := strLenBounds(args[0])
	return mkInt("(str.indexof "+termOf(args[0])+" "+termOf(args[1])+" 0)", types.Int, -1, h), true
}

func inStrIndexRune(fr *frame, args []value) (value, bool) {
	if !anySym(args...) {
		return nil, false
	}
	if r, ok := liftStr(fr, args, func(c []value) value { return strings.IndexRune(c[0].(string), rune(asInt64(c[1]))) }); ok {
		return r, true
	}
	if isSym(args[1]) {
		panic(engineErr("strings.IndexRune with a symbolic rune"))
	}
	_, h := strLenBounds(args[0])
	return mkInt("(str.indexof "+termOf(args[0])+" "+smtStr(string(rune(asInt64(args[1]))))+" 0)", types.Int, -1, h), true
}

func inTrimPrefix(fr *frame, args []value) (value, bool) {
	if !anySym(args...) {
		return nil, false
	}
	if r, ok := liftStr(fr, args, func(c []value) value { return strings.TrimPrefix(c[0].(string), c[1].(string)) }); ok {
		return r, true
	}
	s, p := termOf(args[0]), termOf(args[1])
	r := mkStr("(ite (str.prefixof " + p + " " + s + ") (str.substr " + s + " (str.len " + p + ") (- (str.len " + s + ") (str.len " + p + "))) " + s + ")")
	_, r.hi = strLenBounds(args[0])
	return r, true
}

func inTrimSuffix(fr *frame, args []value) (value, bool) {
	if !anySym(args...) {
		return nil, false
	}
	if r, ok := liftStr(fr, args, func(c []value) value { return strings.TrimSuffix(c[0].(string), c[1].(string)) }); ok {
		return r, true
	}
	s, p := termOf(args[0]), termOf(args[1])
	r := mkStr("(ite (str.suffixof " + p + " " + s + ") (str.substr " + s + " 0 (- (str.len " + s + ") (str.len " + p + "))) " + s + ")")
	_, r.hi = strLenBounds(args[0])
	return r, true
}

func inReplaceAll(fr *frame, args []value) (value, bool) {
	if !anySym(args...) {
		return nil, false
	}
	if r, ok := liftStr(fr, args, func(c []value) value { return strings.ReplaceAll(c[0].(string), c[1].(string), c[2].(string)) }); ok {
		return r, true
	}
	r := mkStr("(str.replace_all " + termOf(args[0]) + " " + termOf(args[1]) + " " + termOf(args[2]) + ")")
	_, h := strLenBounds(args[0])
	_, h2 := strLenBounds(args[2])
	r.hi = satMul(h, max64(h2, 1))
	return r, true
}

func inReplace(fr *frame, args []value) (value, bool) {
	if !anySym(args...) {
		return nil, false
	}
	n := args[3]
	if isSym(n) {
		panic(engineErr("strings.Replace with symbolic n"))
	}
	switch asInt64(n) {
	case 1:
		r := mkStr("(str.replace " + termOf(args[0]) + " " + termOf(args[1]) + " " + termOf(args[2]) + ")")
		_, h := strLenBounds(args[0])
		_, h2 := strLenBounds(args[2])
		r.hi = satAdd(h, h2)
		return r, true
	case -1:
		return inReplaceAll(fr, args[:3])
	}
	panic(engineErr("strings.Replace with n other than 1 or -1 on symbolic strings"))
}

// inSplit forks on the number of separator occurrences (bounded by the
// string's length bound); the separator must be a concrete non-empty string.
func inSplit(fr *frame, args []value) (value, bool) {
	if !anySym(args...) {
		return nil, false
	}
	m := fr.m
	sep, ok := args[1].(string)
	if !ok || sep == "" {
		panic(engineErr("strings.Split with symbolic or empty separator"))
	}
	if tblOf(args[0]) != nil {
		// finite-domain: fork on the number of parts, then every part is a table
		cnt, _, ok := m.lift(args[:1], func(c []value) (value, bool) { return len(strings.Split(c[0].(string), sep)), true })
		if ok {
			n := int(m.concInt(cnt, "number of parts"))
			out := make([]value, n)
			for i := 0; i < n; i++ {
				i := i
				p, _, _ := m.lift(args[:1], func(c []value) (value, bool) {
					parts := strings.Split(c[0].(string), sep)
					if len(parts) != n {
						return "", true
					}
					return parts[i], true
				})
				out[i] = p
			}
			return out, true
		}
	}
	var out []value
	rest := args[0]
	for {
		rt := termOf(rest)
		if s, ok := rest.(string); ok {
			for _, p := range strings.Split(s, sep) {
				out = append(out, p)
			}
			return out, true
		}
		has := "(str.contains " + rt + " " + smtStr(sep) + ")"
		if !m.branch(has) {
			out = append(out, rest)
			return out, true
		}
		idx := "(str.indexof " + rt + " " + smtStr(sep) + " 0)"
		head := mkStr("(str.substr " + rt + " 0 " + idx + ")")
		_, h := strLenBounds(rest)
		head.hi = h
		out = append(out, head)
		tail := mkStr("(str.substr " + rt + " (+ " + idx + " " + strconv.Itoa(len(sep)) + ") (str.len " + rt + "))")
		tail.hi = h - int64(len(sep))
		if tail.hi < 0 {
			tail.hi = 0
		}
		rest = tail
		if len(out) > 16 {
			panic(pathEnd{"limit", "strings.Split produced more than 16 parts"})
		}
	}
}

func inJoin(fr *frame, args []value) (value, bool) {
	elems := args[0].([]value)
	if !anySym(elems...) && !isSym(args[1]) {
		return nil, false
	}
	if len(elems) == 0 {
		return "", true
	}
	m := fr.m
	acc := elems[0]
	for _, e := range elems[1:] {
		acc = m.binopStr(token.ADD, acc, args[1])
		acc = m.binopStr(token.ADD, acc, e)
	}
	return acc, true
}

func inItoa(fr *frame, args []value) (value, bool) {
	sv, ok := args[0].(*symv)
	if !ok {
		return nil, false
	}
	if r, ok := liftStr(fr, args, func(c []value) value { return strconv.FormatInt(asInt64(c[0]), 10) }); ok {
		return r, true
	}
	return itoaTerm(sv), true
}

func itoaTerm(sv *symv) *symv {
	var r *symv
	if sv.lo >= 0 {
		r = mkStr("(str.from_int " + sv.t + ")")
	} else {
		r = mkStr("(ite (>= " + sv.t + " 0) (str.from_int " + sv.t + ") (str.++ \"-\" (str.from_int (- " + sv.t + "))))")
	}
	r.lo, r.hi = 1, 20
	return r
}

// ---------------------------------------------------------------------------
// fmt

// fmtPiece renders one operand for %v/%s/%d/%q.  It returns a string value
// (concrete or symbolic) and false when the operand cannot be rendered
// precisely.
func (m *machine) fmtPiece(fr *frame, verb byte, a value) (value, bool) {
	if it, ok := a.(iface); ok {
		if it.t == nil {
			if verb == 's' {
				return "%!s(<nil>)", true
			}
			return "<nil>", true
		}
		// error / Stringer
		if verb == 'v' || verb == 's' || verb == 'w' || verb == 'q' {
			for _, name := range []string{"Error", "String"} {
				if f := m.methodByName(it.t, name); f != nil {
					if p, isPtr := it.v.(*value); isPtr && p == nil {
						return "<nil>", true
					}
					r := call(m, fr, token.NoPos, f, []value{it.v})
					if verb == 'q' {
						return m.quote(r)
					}
					return r, true
				}
			}
		}
		return m.fmtPiece(fr, verb, it.v)
	}
	switch a := a.(type) {
	case string:
		switch verb {
		case 'q':
			return strconv.Quote(a), true
		case 's', 'v':
			return a, true
		}
	case *symv:
		switch a.s {
		case sStr:
			switch verb {
			case 'q':
				return m.quote(a)
			case 's', 'v':
				return a, true
			}
		case sInt:
			if verb == 'd' || verb == 'v' {
				return itoaTerm(a), true
			}
		case sBool:
			if verb == 't' || verb == 'v' {
				r := mkStr("(ite " + a.t + " \"true\" \"false\")")
				r.lo, r.hi = 4, 5
				return r, true
			}
		}
	case bool:
		if verb == 't' || verb == 'v' {
			return strconv.FormatBool(a), true
		}
	case int, int8, int16, int32, int64:
		if verb == 'd' || verb == 'v' {
			return strconv.FormatInt(asInt64(a), 10), true
		}
	case uint, uint8, uint16, uint32, uint64, uintptr:
		if verb == 'd' || verb == 'v' {
			return strconv.FormatUint(asUint64(a), 10), true
		}
	case float64:
		if verb == 'v' {
			return strconv.FormatFloat(a, 'g', -1, 64), true
		}
		if verb == 'f' {
			return strconv.FormatFloat(a, 'f', 6, 64), true
		}
	case []value:
		if verb == 'v' || verb == 's' {
			// %v of a slice: elements separated by one space, strings unquoted
			var acc value = "["
			for i, e := range a {
				p, ok := m.fmtPiece(fr, verb, e)
				if !ok {
					return nil, false
				}
				if i > 0 {
					acc = m.binopStr(token.ADD, acc, " ")
				}
				acc = m.binopStr(token.ADD, acc, p)
			}
			return m.binopStr(token.ADD, acc, "]"), true
		}
	case *mapV:
		if verb == 'v' {
			// %v of a map: map[k:v k:v] in key order (string keys only)
			type kv struct {
				k string
				v value
			}
			var kvs []kv
			if a != nil {
				for _, e := range a.entries {
					if e.deleted {
						continue
					}
					k, ok := e.k.(string)
					if !ok {
						return nil, false
					}
					kvs = append(kvs, kv{k, e.v})
				}
			}
			sort.Slice(kvs, func(i, j int) bool { return kvs[i].k < kvs[j].k })
			var acc value = "map["
			for i, e := range kvs {
				p, ok := m.fmtPiece(fr, verb, e.v)
				if !ok {
					return nil, false
				}
				if i > 0 {
					acc = m.binopStr(token.ADD, acc, " ")
				}
				acc = m.binopStr(token.ADD, acc, e.k+":")
				acc = m.binopStr(token.ADD, acc, p)
			}
			return m.binopStr(token.ADD, acc, "]"), true
		}
	}
	return nil, false
}

func (m *machine) quote(v value) (value, bool) {
	if s, ok := v.(string); ok {
		return strconv.Quote(s), true
	}
	sv := v.(*symv)
	// precise for strings without characters that need escaping
	r := mkStr("(str.++ \"\"\"\" " + sv.t + " \"\"\"\")")
	r.lo, r.hi = sv.lo+2, sv.hi+2
	return r, true
}

func (m *machine) methodByName(t types.Type, name string) *ssa.Function {
	ms := m.prog.MethodSets.MethodSet(t)
	for i := 0; i < ms.Len(); i++ {
		sel := ms.At(i)
		if sel.Obj().Name() == name {
			sig := sel.Type().(*types.Signature)
			if sig.Params().Len() == 0 && sig.Results().Len() == 1 {
				if b, ok := sig.Results().At(0).Type().Underlying().(*types.Basic); ok && b.Kind() == types.String {
					return m.prog.MethodValue(sel)
				}
			}
		}
	}
	return nil
}

func (m *machine) opaqueStr(why string) *symv {
	n := m.freshAux("opaque", sStr)
	r := mkStr(n)
	r.opaque = true
	r.lo, r.hi = 0, ivMax
	return r
}

// format implements the Sprintf subset; the second result is the operand of
// the first %w (nil when absent).
func (m *machine) format(fr *frame, f value, args []value) (value, value) {
	fs, ok := f.(string)
	if !ok {
		return m.opaqueStr("symbolic format"), nil
	}
	var acc value = ""
	var wrapped value
	ai := 0
	lit := ""
	flush := func() {
		if lit != "" {
			acc = m.binopStr(token.ADD, acc, lit)
			lit = ""
		}
	}
	for i := 0; i < len(fs); i++ {
		c := fs[i]
		if c != '%' {
			lit += string(c)
			continue
		}
		i++
		if i >= len(fs) {
			lit += "%!(NOVERB)"
			break
		}
		// flags we accept and ignore: '+' and '#' for v
		plus := false
		for i < len(fs) && (fs[i] == '+' || fs[i] == '#') {
			plus = true
			i++
		}
		verb := fs[i]
		if verb == '%' {
			lit += "%"
			continue
		}
		if ai >= len(args) {
			lit += "%!" + string(verb) + "(MISSING)"
			continue
		}
		a := args[ai]
		ai++
		if verb == 'w' {
			if wrapped == nil {
				wrapped = a
			}
			verb = 'v'
		}
		var piece value
		ok := false
		if !(plus && verb == 'v') || isSimple(a) {
			piece, ok = m.fmtPiece(fr, verb, a)
		}
		if !ok {
			piece = m.opaqueStr("unsupported verb/operand")
		}
		flush()
		if ps, isS := piece.(*symv); isS && ps.opaque {
			if as, isA := acc.(*symv); isA {
				o := mkStr("(str.++ " + as.t + " " + ps.t + ")")
				o.opaque = true
				o.hi = ivMax
				acc = o
			} else {
				o := mkStr("(str.++ " + smtStr(acc.(string)) + " " + ps.t + ")")
				o.opaque = true
				o.hi = ivMax
				acc = o
			}
			continue
		}
		wasOpaque := false
		if as, isA := acc.(*symv); isA && as.opaque {
			wasOpaque = true
		}
		acc = m.binopStr(token.ADD, acc, piece)
		if wasOpaque {
			acc.(*symv).opaque = true
		}
	}
	flush2 := lit
	if flush2 != "" {
		wasOpaque := false
		if as, isA := acc.(*symv); isA && as.opaque {
			wasOpaque = true
		}
		acc = m.binopStr(token.ADD, acc, flush2)
		if wasOpaque {
			acc.(*symv).opaque = true
		}
	}
	return acc, wrapped
}

func isSimple(a value) bool {
	if it, ok := a.(iface); ok {
		a = it.v
	}
	switch a.(type) {
	case string, *symv, bool, int, int8, int16, int32, int64, uint, uint8, uint16, uint32, uint64:
		return true
	}
	return false
}

func inSprintf(fr *frame, args []value) (value, bool) {
	s, _ := fr.m.format(fr, args[0], args[1].([]value))
	return s, true
}

func inSprint(fr *frame, args []value) (value, bool) {
	m := fr.m
	var acc value = ""
	for _, a := range args[0].([]value) {
		p, ok := m.fmtPiece(fr, 'v', a)
		if !ok {
			p = m.opaqueStr("Sprint operand")
		}
		wasOpaque := false
		if as, isA := acc.(*symv); isA && as.opaque {
			wasOpaque = true
		}
		acc = m.binopStr(token.ADD, acc, p)
		if ps, isS := p.(*symv); isS && ps.opaque || wasOpaque {
			if as, ok := acc.(*symv); ok {
				as.opaque = true
			}
		}
	}
	return acc, true
}

func (m *machine) namedType(pkg, name string) types.Type {
	p := m.prog.ImportedPackage(pkg)
	if p == nil {
		panic(engineErr("package not loaded: " + pkg))
	}
	t := p.Type(name)
	if t == nil {
		panic(engineErr("type not found: " + pkg + "." + name))
	}
	return t.Object().Type()
}

func inErrorf(fr *frame, args []value) (value, bool) {
	m := fr.m
	s, wrapped := m.format(fr, args[0], args[1].([]value))
	if wrapped != nil {
		if w, ok := wrapped.(iface); ok && w.t != nil {
			t := m.namedType("fmt", "wrapError")
			var cell value = structure{s, w}
			return iface{t: types.NewPointer(t), v: &cell}, true
		}
	}
	t := m.namedType("errors", "errorString")
	var cell value = structure{s}
	return iface{t: types.NewPointer(t), v: &cell}, true
}

// ---------------------------------------------------------------------------
// errors

func (m *machine) unwrapErr(fr *frame, e iface) []iface {
	ms := m.prog.MethodSets.MethodSet(e.t)
	for i := 0; i < ms.Len(); i++ {
		sel := ms.At(i)
		if sel.Obj().Name() != "Unwrap" {
			continue
		}
		sig := sel.Type().(*types.Signature)
		if sig.Params().Len() != 0 || sig.Results().Len() != 1 {
			continue
		}
		r := call(m, fr, token.NoPos, m.prog.MethodValue(sel), []value{e.v})
		switch r := r.(type) {
		case iface:
			if r.t == nil {
				return nil
			}
			return []iface{r}
		case []value:
			var out []iface
			for _, x := range r {
				if xi := x.(iface); xi.t != nil {
					out = append(out, xi)
				}
			}
			return out
		}
	}
	return nil
}

func inErrorsIs(fr *frame, args []value) (value, bool) {
	m := fr.m
	err, target := args[0].(iface), args[1].(iface)
	if err.t == nil || target.t == nil {
		return sameType(err.t, target.t), true
	}
	var walk func(e iface) bool
	walk = func(e iface) bool {
		if types.Comparable(target.t) && sameType(e.t, target.t) {
			if m.equals(e.t, e.v, target.v) {
				return true
			}
		}
		ms := m.prog.MethodSets.MethodSet(e.t)
		for i := 0; i < ms.Len(); i++ {
			sel := ms.At(i)
			if sel.Obj().Name() == "Is" {
				sig := sel.Type().(*types.Signature)
				if sig.Params().Len() == 1 && sig.Results().Len() == 1 {
					r := call(m, fr, token.NoPos, m.prog.MethodValue(sel), []value{e.v, target})
					if b, ok := r.(bool); ok && b {
						return true
					}
				}
			}
		}
		for _, u := range m.unwrapErr(fr, e) {
			if walk(u) {
				return true
			}
		}
		return false
	}
	return walk(err), true
}

func inErrorsAs(fr *frame, args []value) (value, bool) {
	m := fr.m
	err, target := args[0].(iface), args[1].(iface)
	if err.t == nil {
		return false, true
	}
	pt, ok := target.t.Underlying().(*types.Pointer)
	if !ok {
		panic(targetPanic{iface{t: types.Typ[types.String], v: "errors: target must be a non-nil pointer"}})
	}
	want := pt.Elem()
	cell := target.v.(*value)
	var walk func(e iface) bool
	walk = func(e iface) bool {
		if types.AssignableTo(e.t, want) {
			if _, isIface := want.Underlying().(*types.Interface); isIface {
				*cell = e
			} else {
				*cell = e.v
			}
			return true
		}
		for _, u := range m.unwrapErr(fr, e) {
			if walk(u) {
				return true
			}
		}
		return false
	}
	return walk(err), true
}

// ---------------------------------------------------------------------------
// reflectlite (for sort.Slice) and reflect.DeepEqual

func inRLValueOf(fr *frame, args []value) (value, bool) {
	return structure{args[0], nil, uintptr(0)}, true
}

func rlUnwrap(v value) value {
	s := v.(structure)
	it := s[0].(iface)
	return it.v
}

func inRLLen(fr *frame, args []value) (value, bool) {
	switch x := rlUnwrap(args[0]).(type) {
	case []value:
		return len(x), true
	case *mapV:
		return x.length(), true
	case string:
		return len(x), true
	}
	panic(engineErr("reflect Value.Len on unsupported value"))
}

func inRLSwapper(fr *frame, args []value) (value, bool) {
	sl, ok := args[0].(iface).v.([]value)
	if !ok {
		panic(engineErr("Swapper on non-slice"))
	}
	return &nativeFn{name: "swapper", f: func(fr *frame, a []value) value {
		i, j := int(fr.m.concInt(a[0], "swap index")), int(fr.m.concInt(a[1], "swap index"))
		sl[i], sl[j] = sl[j], sl[i]
		return nil
	}}, true
}

func inDeepEqual(fr *frame, args []value) (value, bool) {
	a, b := args[0].(iface), args[1].(iface)
	if !sameType(a.t, b.t) {
		return false, true
	}
	return mkBoolV(fr.m.deepEq(a.v, b.v, 0)), true
}

func (m *machine) deepEq(a, b value, depth int) string {
	if depth > 12 {
		panic(engineErr("DeepEqual too deep"))
	}
	switch a := a.(type) {
	case []value:
		bb := b.([]value)
		if (a == nil) != (bb == nil) || len(a) != len(bb) {
			return "false"
		}
		r := "true"
		for i := range a {
			r = tAnd(r, m.deepEq(a[i], bb[i], depth+1))
		}
		return r
	case *mapV:
		bb := b.(*mapV)
		if (a == nil) != (bb == nil) || a.length() != bb.length() {
			return "false"
		}
		r := "true"
		if a != nil {
			for _, e := range a.entries {
				f := m.mapFind(bb, e.k)
				if f == nil {
					return "false"
				}
				r = tAnd(r, m.deepEq(e.v, f.v, depth+1))
			}
		}
		return r
	case structure:
		bb := b.(structure)
		r := "true"
		for i := range a {
			r = tAnd(r, m.deepEq(a[i], bb[i], depth+1))
		}
		return r
	case array:
		bb := b.(array)
		r := "true"
		for i := range a {
			r = tAnd(r, m.deepEq(a[i], bb[i], depth+1))
		}
		return r
	case iface:
		bb := b.(iface)
		if !sameType(a.t, bb.t) {
			return "false"
		}
		if a.t == nil {
			return "true"
		}
		return m.deepEq(a.v, bb.v, depth+1)
	case *value:
		bb := b.(*value)
		if a == bb {
			return "true"
		}
		if a == nil || bb == nil {
			return "false"
		}
		return m.deepEq(*a, *bb, depth+1)
	case *ssa.Function, *closure:
		return "false"
	}
	return m.eqTerm(nil, a, b)
}

// ---------------------------------------------------------------------------
// sync

func inOnceDo(fr *frame, args []value) (value, bool) {
	m := fr.m
	p := args[0].(*value)
	ls := m.lockOf(p)
	m.schedPoint("once")
	if ls.readers == 0 { // readers field reused as the done flag
		ls.readers = 1
		call(m, fr, token.NoPos, args[1], nil)
	}
	return nil, true
}

func (m *machine) wgCounter(p *value) *lockState { return m.lockOf(p) }

func inWGAdd(fr *frame, args []value) (value, bool) {
	ls := fr.m.wgCounter(args[0].(*value))
	ls.readers += int(fr.m.concInt(args[1], "WaitGroup.Add"))
	fr.m.schedPoint("wg.add")
	return nil, true
}

func inWGDone(fr *frame, args []value) (value, bool) {
	ls := fr.m.wgCounter(args[0].(*value))
	ls.readers--
	if ls.readers < 0 {
		panic(targetPanic{iface{t: types.Typ[types.String], v: "sync: negative WaitGroup counter"}})
	}
	fr.m.schedPoint("wg.done")
	return nil, true
}

func inWGWait(fr *frame, args []value) (value, bool) {
	ls := fr.m.wgCounter(args[0].(*value))
	fr.m.schedPoint("wg.wait")
	fr.m.block("WaitGroup.Wait", func() bool { return ls.readers == 0 })
	return nil, true
}

func inWGGo(fr *frame, args []value) (value, bool) {
	m := fr.m
	ls := m.wgCounter(args[0].(*value))
	ls.readers++
	f := args[1]
	m.spawn("wg.Go", &nativeFn{name: "wg.Go", f: func(fr2 *frame, _ []value) value {
		call(m, fr2, token.NoPos, f, nil)
		ls.readers--
		m.schedPoint("wg.done")
		return nil
	}}, nil)
	return nil, true
}

func addAtomics() {
	// sync/atomic typed values: struct{_ noCopy; v T} (Int32/Int64/Uint32/Uint64) and Bool{_; v uint32}
	for _, tn := range []string{"Int32", "Int64", "Uint32", "Uint64"} {
		tn := tn
		intrinsics["(*sync/atomic."+tn+").Load"] = func(fr *frame, a []value) (value, bool) {
			fr.m.schedPoint("atomic.load")
			return lastField(fr.m, a[0]), true
		}
		intrinsics["(*sync/atomic."+tn+").Store"] = func(fr *frame, a []value) (value, bool) {
			setLastField(fr.m, a[0], a[1])
			fr.m.schedPoint("atomic.store")
			return nil, true
		}
		intrinsics["(*sync/atomic."+tn+").Add"] = func(fr *frame, a []value) (value, bool) {
			fr.m.schedPoint("atomic.add")
			nv := fr.m.binop(token.ADD, fr.fn.Signature.Params().At(0).Type(), lastField(fr.m, a[0]), a[1])
			setLastField(fr.m, a[0], nv)
			return nv, true
		}
		intrinsics["(*sync/atomic."+tn+").CompareAndSwap"] = func(fr *frame, a []value) (value, bool) {
			fr.m.schedPoint("atomic.cas")
			if fr.m.equals(nil, lastField(fr.m, a[0]), a[1]) {
				setLastField(fr.m, a[0], a[2])
				return true, true
			}
			return false, true
		}
	}
	intrinsics["(*sync/atomic.Bool).Load"] = func(fr *frame, a []value) (value, bool) {
		fr.m.schedPoint("atomic.load")
		return !isZeroInt(lastField(fr.m, a[0])), true
	}
	intrinsics["(*sync/atomic.Bool).Store"] = func(fr *frame, a []value) (value, bool) {
		b, isConc, _ := boolVal(a[1])
		if !isConc {
			b = fr.m.branch(termOf(a[1]))
		}
		var v uint32
		if b {
			v = 1
		}
		setLastField(fr.m, a[0], v)
		fr.m.schedPoint("atomic.store")
		return nil, true
	}
	intrinsics["(*sync/atomic.Bool).CompareAndSwap"] = func(fr *frame, a []value) (value, bool) {
		fr.m.schedPoint("atomic.cas")
		cur := !isZeroInt(lastField(fr.m, a[0]))
		if cur == a[1].(bool) {
			var v uint32
			if a[2].(bool) {
				v = 1
			}
			setLastField(fr.m, a[0], v)
			return true, true
		}
		return false, true
	}
	for _, fn := range []string{"Int32", "Int64", "Uint32", "Uint64"} {
		intrinsics["sync/atomic.Load"+fn] = func(fr *frame, a []value) (value, bool) {
			fr.m.schedPoint("atomic.load")
			return *fr.m.ptr(a[0], "atomic"), true
		}
		intrinsics["sync/atomic.Store"+fn] = func(fr *frame, a []value) (value, bool) {
			*fr.m.ptr(a[0], "atomic") = a[1]
			fr.m.schedPoint("atomic.store")
			return nil, true
		}
		intrinsics["sync/atomic.Add"+fn] = func(fr *frame, a []value) (value, bool) {
			fr.m.schedPoint("atomic.add")
			p := fr.m.ptr(a[0], "atomic")
			*p = fr.m.binop(token.ADD, fr.fn.Signature.Params().At(1).Type(), *p, a[1])
			return *p, true
		}
		intrinsics["sync/atomic.CompareAndSwap"+fn] = func(fr *frame, a []value) (value, bool) {
			fr.m.schedPoint("atomic.cas")
			p := fr.m.ptr(a[0], "atomic")
			if fr.m.equals(nil, *p, a[1]) {
				*p = a[2]
				return true, true
			}
			return false, true
		}
	}
}

func lastField(m *machine, p value) value {
	s := (*m.ptr(p, "atomic")).(structure)
	return s[len(s)-1]
}

func setLastField(m *machine, p value, v value) {
	s := (*m.ptr(p, "atomic")).(structure)
	s[len(s)-1] = v
}

// ---------------------------------------------------------------------------
// context

type ctxV struct {
	parent *ctxV
	done   *chanV
	err    value // iface
	m      *machine
	// a context.WithValue node: shares its parent's Done
	isValue  bool
	key, val value
}

// context.WithValue: a node that carries one key/value pair and is cancelled with its parent.
func inWithValue(fr *frame, args []value) (value, bool) {
	m := fr.m
	if args[0].(iface).t == nil {
		panic(targetPanic{iface{t: types.Typ[types.String], v: "cannot create context from nil parent"}})
	}
	parent := ctxOf(args[0])
	c := &ctxV{parent: parent, m: m, done: parent.done, isValue: true, key: args[1], val: args[2]}
	return iface{t: m.ctxType(), v: c}, true
}

// sync.Pool without reuse: Get returns New() (or nil), Put drops the value.
func inPoolGet(fr *frame, args []value) (value, bool) {
	m := fr.m
	ps := (*m.ptr(args[0], "sync.Pool")).(structure)
	newFn := ps[len(ps)-1]
	if newFn == nil {
		return iface{}, true
	}
	if c, ok := newFn.(*closure); ok && c == nil {
		return iface{}, true
	}
	return call(m, fr, token.NoPos, newFn, nil), true
}

func (m *machine) ctxType() types.Type {
	return types.NewPointer(m.namedType("context", "cancelCtx"))
}

func (m *machine) newCtx(parent *ctxV) value {
	c := &ctxV{parent: parent, m: m, done: &chanV{elem: types.NewStruct(nil, nil), isDone: true, name: "ctx.Done"}}
	return iface{t: m.ctxType(), v: c}
}

func (c *ctxV) cancelled() bool {
	for x := c; x != nil; x = x.parent {
		if x.done.closed {
			return true
		}
	}
	return false
}

func (c *ctxV) cancel() {
	if !c.done.closed {
		c.done.closed = true
	}
}

func (c *ctxV) callMethod(fr *frame, name string, args []value) value {
	m := fr.m
	switch name {
	case "Done":
		// propagate a parent's cancellation lazily
		if c.cancelled() {
			c.done.closed = true
		}
		return c.done
	case "Err":
		m.schedPoint("ctx.Err")
		// a look at the cancellation, like a select on Done
		m.lastDoneSawClosed[m.cur.id] = c.cancelled()
		m.cur.sleptSinceDone = false
		if c.cancelled() {
			g := m.prog.ImportedPackage("context").Var("Canceled")
			return load(mustDeref(g.Type()), m.global(g))
		}
		return iface{}
	case "Value":
		for x := c; x != nil; x = x.parent {
			if x.isValue {
				ki, ok1 := x.key.(iface)
				ai, ok2 := args[0].(iface)
				if ok1 && ok2 && ki.t != nil && ai.t != nil && types.Identical(ki.t, ai.t) && m.equals(ki.t, ki.v, ai.v) {
					return x.val
				}
			}
		}
		return iface{}
	case "Deadline":
		return tuple{zero(m.namedType("time", "Time")), false}
	}
	panic(engineErr("context method " + name))
}

func ctxOf(v value) *ctxV {
	it := v.(iface)
	if it.t == nil {
		return nil
	}
	c, ok := it.v.(*ctxV)
	if !ok {
		panic(engineErr(fmt.Sprintf("context implemented by %v is not modelled", it.t)))
	}
	return c
}

func inWithCancel(fr *frame, args []value) (value, bool) {
	m := fr.m
	if args[0].(iface).t == nil {
		panic(targetPanic{iface{t: types.Typ[types.String], v: "cannot create context from nil parent"}})
	}
	parent := ctxOf(args[0])
	ctx := m.newCtx(parent)
	c := ctx.(iface).v.(*ctxV)
	m.registerCtx(parent, c)
	cancel := &nativeFn{name: "context.CancelFunc", f: func(fr *frame, _ []value) value {
		m.cancelTree(c)
		m.schedPoint("cancel")
		return nil
	}}
	return tuple{ctx, cancel}, true
}

func inWithTimeout(fr *frame, args []value) (value, bool) {
	return inWithCancel(fr, args[:1])
}

func (m *machine) registerCtx(parent, c *ctxV) {
	if m.ctxKids == nil {
		m.ctxKids = map[*ctxV][]*ctxV{}
	}
	if parent != nil {
		m.ctxKids[parent] = append(m.ctxKids[parent], c)
	}
}

func (m *machine) cancelTree(c *ctxV) {
	c.cancel()
	for _, k := range m.ctxKids[c] {
		m.cancelTree(k)
	}
}

// ---------------------------------------------------------------------------
// time: the clock is a symbolic non-decreasing integer (nanoseconds)

func (m *machine) now() value {
	if m.concreteMode {
		return m.concInt64("now")
	}
	n := m.fresh("now", sInt)
	lo := int64(0)
	if m.clock != nil {
		m.assume("(>= " + n + " " + m.clock.t + ")")
		lo = m.clock.lo
	} else {
		m.assume("(>= " + n + " 0)")
	}
	m.assume("(<= " + n + " 4000000000000000000)")
	c := mkInt(n, types.Int64, lo, 4000000000000000000)
	m.clock = c
	return c
}

func timeVal(ns value) value {
	return structure{uint64(0), ns, (*value)(nil)}
}

func timeNs(v value) value { return v.(structure)[1] }

func inTimeNow(fr *frame, args []value) (value, bool) {
	return timeVal(fr.m.now()), true
}

func inTimeSince(fr *frame, args []value) (value, bool) {
	m := fr.m
	return m.binop(token.SUB, types.Typ[types.Int64], m.now(), timeNs(args[0])), true
}

func inTimeSub(fr *frame, args []value) (value, bool) {
	return fr.m.binop(token.SUB, types.Typ[types.Int64], timeNs(args[0]), timeNs(args[1])), true
}

func inTimeAdd(fr *frame, args []value) (value, bool) {
	return timeVal(fr.m.binop(token.ADD, types.Typ[types.Int64], timeNs(args[0]), args[1])), true
}

func inTimeCmp(op token.Token) libIntrinsic {
	return func(fr *frame, args []value) (value, bool) {
		return fr.m.binop(op, types.Typ[types.Int64], timeNs(args[0]), timeNs(args[1])), true
	}
}

// Duration -> float seconds of a symbolic duration: exact rational (used for
// metric values only; rounding is not modelled and never decides anything).
func inDurFloat(div string) libIntrinsic {
	return func(fr *frame, a []value) (value, bool) {
		sv, ok := a[0].(*symv)
		if !ok {
			return nil, false
		}
		if sv.tbl != nil {
			d, _ := strconv.ParseFloat(div, 64)
			if r, _, ok := fr.m.lift(a[:1], func(c []value) (value, bool) { return float64(asInt64(c[0])) / d, true }); ok {
				return r, true
			}
		}
		return mkReal("(/ (to_real "+sv.t+") "+div+")", types.Float64), true
	}
}

func inTimeIsZero(fr *frame, args []value) (value, bool) {
	return fr.m.binop(token.EQL, types.Typ[types.Int64], timeNs(args[0]), int64(0)), true
}

func inNewTicker(fr *frame, args []value) (value, bool) {
	m := fr.m
	tc := &chanV{ticker: true, elem: m.namedType("time", "Time"), name: "ticker"}
	// a timer of a second or more is a time-out: it fires only as a last resort (§2.5)
	if len(args) > 0 {
		if d, ok := args[0].(int64); ok && d >= 1000000000 {
			tc.long = true
			tc.name = "timeout"
		}
	}
	var ch value = tc
	// time.Ticker{C <-chan Time; r runtimeTimer...}: only field 0 is used
	t := fr.fn.Signature.Results().At(0).Type()
	st := zero(mustDeref(t)).(structure)
	st[0] = ch
	var cell value = st
	return &cell, true
}

func inTimeAfter(fr *frame, args []value) (value, bool) {
	tc := &chanV{ticker: true, elem: fr.m.namedType("time", "Time"), name: "time.After"}
	if len(args) > 0 {
		if d, ok := args[0].(int64); ok && d >= 1000000000 {
			tc.long = true
			tc.name = "timeout"
		}
	}
	return tc, true
}

func inRandInt64N(fr *frame, args []value) (value, bool) {
	m := fr.m
	n := args[len(args)-1]
	if m.concreteMode {
		return m.concIntOfKind("rand", basicKind(fr.fn.Signature.Results().At(0).Type())), true
	}
	v := m.fresh("rand", sInt)
	m.assume("(and (>= " + v + " 0) (< " + v + " " + termOf(n) + "))")
	_, hi := ivOf(n)
	kind := basicKind(fr.fn.Signature.Results().At(0).Type())
	return mkInt(v, kind, 0, hi-1), true
}

func inMath2(f func(a, b float64) float64) libIntrinsic {
	return func(fr *frame, args []value) (value, bool) {
		a, ok1 := args[0].(float64)
		b, ok2 := args[1].(float64)
		if !ok1 || !ok2 {
			panic(engineErr(fr.fn.String() + " on symbolic floats is not modelled"))
		}
		return f(a, b), true
	}
}

func inUUIDNewV4(fr *frame, args []value) (value, bool) {
	m := fr.m
	m.uuidN++
	a := make(array, 16)
	for i := range a {
		a[i] = uint8(0)
	}
	a[14] = uint8(m.uuidN >> 8)
	a[15] = uint8(m.uuidN)
	a[6] = uint8(0x40)
	a[8] = uint8(0x80)
	return tuple{a, iface{}}, true
}

func inGetenv(fr *frame, args []value) (value, bool) {
	k, ok := args[0].(string)
	if !ok {
		panic(engineErr("os.Getenv with symbolic key"))
	}
	if v, ok := fr.m.notes["env:"+k]; ok {
		return v, true
	}
	return "", true
}
