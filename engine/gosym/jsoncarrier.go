package gosym

// encoding/json Decoder/Encoder on the harness carriers (pkg/zzverifhttp):
// a typed copy of the payload.  Any other reader/writer is refused.

import (
	"fmt"
	"go/types"
	"strings"
)

type jsonCodec struct {
	rw  value
	pos int
}

func carrierStruct(v value, typeName string) (structure, bool) {
	it, ok := v.(iface)
	if !ok || it.t == nil {
		return nil, false
	}
	n, ok := derefNamed(it.t)
	if !ok || !strings.HasSuffix(n, "/pkg/zzverifhttp."+typeName) {
		return nil, false
	}
	p, ok := it.v.(*value)
	if !ok || p == nil {
		return nil, false
	}
	st, ok := (*p).(structure)
	return st, ok
}

// copyPayload stores payload (an interface value holding T or *T) into *out.
func (m *machine) copyPayload(payload value, out value) bool {
	pi, ok := payload.(iface)
	if !ok || pi.t == nil {
		return false
	}
	oi := out.(iface)
	pt, ok := oi.t.Underlying().(*types.Pointer)
	if !ok {
		panic(engineErr("json carrier: decode target is not a pointer"))
	}
	target := oi.v.(*value)
	src := pi.v
	srcT := pi.t
	if sp, isPtr := srcT.Underlying().(*types.Pointer); isPtr {
		srcT = sp.Elem()
		src = load(srcT, src.(*value))
	}
	if !types.Identical(srcT, pt.Elem()) {
		panic(engineErr(fmt.Sprintf("json carrier: payload %v does not match target %v", srcT, pt.Elem())))
	}
	store(pt.Elem(), target, copyVal(src))
	return true
}

func init() {
	intrinsics["encoding/json.NewDecoder"] = func(fr *frame, a []value) (value, bool) {
		return &jsonCodec{rw: a[0]}, true
	}
	intrinsics["encoding/json.NewEncoder"] = func(fr *frame, a []value) (value, bool) {
		return &jsonCodec{rw: a[0]}, true
	}
	intrinsics["(*encoding/json.Decoder).Decode"] = func(fr *frame, a []value) (value, bool) {
		c, ok := a[0].(*jsonCodec)
		if !ok {
			panic(engineErr("json.Decoder not created by the model"))
		}
		if db := docStreamOf(c.rw); db != nil {
			if db.yaml && len(db.docs) > 0 {
				return fr.m.errIface("invalid character looking for beginning of value"), true
			}
			if c.pos == db.malformedAt {
				return fr.m.errIface("invalid character '{' after object key:value pair"), true
			}
			if c.pos >= len(db.docs) {
				return fr.m.ioEOF(), true
			}
			fr.m.decodeDoc(db.docs[c.pos], a[1])
			c.pos++
			return iface{}, true
		}
		st, ok := carrierStruct(c.rw, "Body")
		if !ok {
			panic(engineErr("json decoding from a reader that is not a harness carrier is not modelled"))
		}
		if !fr.m.copyPayload(st[0], a[1]) {
			return fr.m.errIface("EOF"), true
		}
		return iface{}, true
	}
	intrinsics["(*encoding/json.Encoder).Encode"] = func(fr *frame, a []value) (value, bool) {
		c, ok := a[0].(*jsonCodec)
		if !ok {
			panic(engineErr("json.Encoder not created by the model"))
		}
		st, ok := carrierStruct(c.rw, "Sink")
		if !ok {
			panic(engineErr("json encoding to a writer that is not a harness carrier is not modelled"))
		}
		v := a[1].(iface)
		st[0] = iface{t: v.t, v: copyVal(v.v)}
		st[4] = true
		return iface{}, true
	}
	intrinsics["(net/http.Header).Set"] = func(fr *frame, a []value) (value, bool) {
		fr.m.mapInsert(a[0].(*mapV), a[1], []value{a[2]})
		return nil, true
	}
	intrinsics["(net/http.Header).Get"] = func(fr *frame, a []value) (value, bool) {
		if e := fr.m.mapFind(a[0].(*mapV), a[1]); e != nil {
			if l := e.v.([]value); len(l) > 0 {
				return l[0], true
			}
		}
		return "", true
	}
	zzAPI["CopyPayload"] = func(fr *frame, a []value) value {
		return fr.m.copyPayload(a[0], a[1])
	}
}
