package gosym

// encoding/json Decoder/Encoder on the harness carriers (pkg/zzverifhttp):
// a typed copy of the payload.  Any other reader/writer is refused.

import (
	"fmt"
	"go/token"
	"go/types"
	"strings"

	"golang.org/x/tools/go/ssa"
)

type jsonCodec struct {
	rw  value
	pos int
}

func carrierStruct(v value, typeName string) (structure, bool) {
	it, ok := v.(iface)
	if !ok || it.t == nil {
		return nil, false
	}
	n, ok := derefNamed(it.t)
	if !ok || !strings.HasSuffix(n, "/pkg/zzverifhttp."+typeName) {
		return nil, false
	}
	p, ok := it.v.(*value)
	if !ok || p == nil {
		return nil, false
	}
	st, ok := (*p).(structure)
	return st, ok
}

// copyPayload stores payload (an interface value holding T or *T) into *out.
func (m *machine) copyPayload(payload value, out value) bool {
	pi, ok := payload.(iface)
	if !ok || pi.t == nil {
		return false
	}
	oi := out.(iface)
	pt, ok := oi.t.Underlying().(*types.Pointer)
	if !ok {
		panic(engineErr("json carrier: decode target is not a pointer"))
	}
	target := oi.v.(*value)
	src := pi.v
	srcT := pi.t
	if sp, isPtr := srcT.Underlying().(*types.Pointer); isPtr {
		srcT = sp.Elem()
		src = load(srcT, src.(*value))
	}
	if !types.Identical(srcT, pt.Elem()) {
		panic(engineErr(fmt.Sprintf("json carrier: payload %v does not match target %v", srcT, pt.Elem())))
	}
	store(pt.Elem(), target, copyVal(src))
	return true
}

func init() {
	intrinsics["encoding/json.NewDecoder"] = func(fr *frame, a []value) (value, bool) {
		return &jsonCodec{rw: a[0]}, true
	}
	// More: "is there another element": false at the end of the input and in front of a closing
	// delimiter (encoding/json peeks at the next non-space byte), true otherwise.
	intrinsics["(*encoding/json.Decoder).More"] = func(fr *frame, a []value) (value, bool) {
		c, ok := a[0].(*jsonCodec)
		if !ok {
			panic(engineErr("json.Decoder not created by the model"))
		}
		db := docStreamOf(c.rw)
		if db == nil {
			panic(engineErr("json.Decoder.More is modelled for document streams only"))
		}
		if db.yaml && len(db.docs) > 0 {
			return true, true
		}
		switch db.jsonDocNext(c.pos) {
		case "stray", "eof":
			return false, true
		}
		return true, true
	}
	intrinsics["encoding/json.NewEncoder"] = func(fr *frame, a []value) (value, bool) {
		return &jsonCodec{rw: a[0]}, true
	}
	intrinsics["(*encoding/json.Decoder).Decode"] = func(fr *frame, a []value) (value, bool) {
		c, ok := a[0].(*jsonCodec)
		if !ok {
			panic(engineErr("json.Decoder not created by the model"))
		}
		if db := docStreamOf(c.rw); db != nil {
			if db.yaml && len(db.docs) > 0 {
				return fr.m.errIface("invalid character looking for beginning of value"), true
			}
			switch db.jsonDocNext(c.pos) {
			case "malformed":
				return fr.m.errIface("invalid character '{' after object key:value pair"), true
			case "stray":
				return fr.m.errIface("invalid character '}' looking for beginning of value"), true
			case "eof":
				return fr.m.ioEOF(), true
			}
			fr.m.decodeDoc(db.docs[c.pos], a[1])
			c.pos++
			return iface{}, true
		}
		st, ok := carrierStruct(c.rw, "Body")
		if !ok {
			panic(engineErr("json decoding from a reader that is not a harness carrier is not modelled"))
		}
		if !fr.m.copyPayload(st[0], a[1]) {
			return fr.m.errIface("EOF"), true
		}
		return iface{}, true
	}
	intrinsics["(*encoding/json.Encoder).Encode"] = func(fr *frame, a []value) (value, bool) {
		c, ok := a[0].(*jsonCodec)
		if !ok {
			panic(engineErr("json.Encoder not created by the model"))
		}
		st, ok := carrierStruct(c.rw, "Sink")
		if !ok {
			// a wrapper around the carrier (e.g. chi's WrapResponseWriter): the payload goes to the
			// carrier found through Unwrap(), and the wrapper sees an (empty) Write so that its own
			// book-keeping (implicit WriteHeader) runs as in the real encoder.
			w := c.rw
			for depth := 0; depth < 4 && !ok; depth++ {
				it, isI := w.(iface)
				if !isI || it.t == nil {
					break
				}
				var unwrap *ssa.Function
				ms := fr.m.prog.MethodSets.MethodSet(it.t)
				for i := 0; i < ms.Len(); i++ {
					sel := ms.At(i)
					sig := sel.Type().(*types.Signature)
					if sel.Obj().Name() == "Unwrap" && sig.Params().Len() == 0 && sig.Results().Len() == 1 {
						unwrap = fr.m.prog.MethodValue(sel)
					}
				}
				if unwrap == nil {
					break
				}
				w = call(fr.m, fr, token.NoPos, unwrap, []value{it.v})
				st, ok = carrierStruct(w, "Sink")
			}
			if !ok {
				panic(engineErr("json encoding to a writer that is not a harness carrier is not modelled"))
			}
			it := c.rw.(iface)
			ms := fr.m.prog.MethodSets.MethodSet(it.t)
			for i := 0; i < ms.Len(); i++ {
				if sel := ms.At(i); sel.Obj().Name() == "Write" {
					call(fr.m, fr, token.NoPos, fr.m.prog.MethodValue(sel), []value{it.v, zero(types.NewSlice(types.Typ[types.Byte]))})
				}
			}
		}
		v := a[1].(iface)
		st[0] = iface{t: v.t, v: copyVal(v.v)}
		st[4] = true
		return iface{}, true
	}
	intrinsics["(net/http.Header).Set"] = func(fr *frame, a []value) (value, bool) {
		fr.m.mapInsert(a[0].(*mapV), a[1], []value{a[2]})
		return nil, true
	}
	intrinsics["(net/http.Header).Get"] = func(fr *frame, a []value) (value, bool) {
		if e := fr.m.mapFind(a[0].(*mapV), a[1]); e != nil {
			if l := e.v.([]value); len(l) > 0 {
				return l[0], true
			}
		}
		return "", true
	}
	zzAPI["CopyPayload"] = func(fr *frame, a []value) value {
		return fr.m.copyPayload(a[0], a[1])
	}
}
