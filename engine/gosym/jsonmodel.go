package gosym

// encoding/json.Marshal and the repo's CalculateChecksum as engine models.
//
// json.Marshal is modelled for JSON-shaped values (map[string]any, []any,
// string, float64, integers, bool, nil, *unstructured.Unstructured): the
// result is the canonical text encoding/json produces (object keys sorted),
// with symbolic string leaves spliced in (their alphabet is assumed not to
// need escaping).  The result is a symBytes value: "[]byte of this string".
//
// CalculateChecksum(s) is modelled as an injective function of its argument
// ("no md5 collisions"), namely "md5:"+s.

import (
	"fmt"
	"go/token"
	"go/types"
	"sort"
	"strconv"
)

type symBytes struct {
	str value // string or *symv
}

func (m *machine) jsonText(v value, depth int) value {
	if depth > 16 {
		panic(engineErr("json model: value too deep"))
	}
	cat := func(a, b value) value { return m.binopStr(token.ADD, a, b) }
	switch v := v.(type) {
	case iface:
		if v.t == nil {
			return "null"
		}
		// values with their own MarshalJSON that we know
		if named, ok := derefNamed(v.t); ok {
			switch named {
			case "k8s.io/apimachinery/pkg/apis/meta/v1/unstructured.Unstructured":
				st := v.v
				if p, ok := st.(*value); ok {
					if p == nil {
						return "null"
					}
					st = *p
				}
				return m.jsonText(st.(structure)[0], depth+1)
			}
		}
		return m.jsonText(v.v, depth+1)
	case nil:
		return "null"
	case string:
		return strconv.Quote(v)
	case *symv:
		switch v.s {
		case sStr:
			return cat(cat("\"", v), "\"")
		case sInt:
			return itoaTerm(v)
		case sBool:
			r := mkStr("(ite " + v.t + " \"true\" \"false\")")
			r.lo, r.hi = 4, 5
			return r
		}
		panic(engineErr("json model: symbolic float"))
	case bool:
		return strconv.FormatBool(v)
	case float64:
		return strconv.FormatFloat(v, 'g', -1, 64)
	case int, int8, int16, int32, int64:
		return strconv.FormatInt(asInt64(v), 10)
	case uint, uint8, uint16, uint32, uint64:
		return strconv.FormatUint(asUint64(v), 10)
	case *mapV:
		if v == nil {
			return "null"
		}
		type kv struct {
			k string
			v value
		}
		var ents []kv
		for _, e := range v.entries {
			ks, ok := e.k.(string)
			if !ok {
				ks = m.concretizeStr(e.k)
			}
			ents = append(ents, kv{ks, e.v})
		}
		sort.Slice(ents, func(i, j int) bool { return ents[i].k < ents[j].k })
		var acc value = "{"
		for i, e := range ents {
			if i > 0 {
				acc = cat(acc, ",")
			}
			acc = cat(acc, strconv.Quote(e.k)+":")
			acc = cat(acc, m.jsonText(e.v, depth+1))
		}
		return cat(acc, "}")
	case []value:
		if v == nil {
			return "null"
		}
		var acc value = "["
		for i, e := range v {
			if i > 0 {
				acc = cat(acc, ",")
			}
			acc = cat(acc, m.jsonText(e, depth+1))
		}
		return cat(acc, "]")
	case *value:
		if v == nil {
			return "null"
		}
		return m.jsonText(*v, depth+1)
	}
	panic(engineErr(fmt.Sprintf("json model: unsupported value %T", v)))
}

func derefNamed(t types.Type) (string, bool) {
	if p, ok := t.(*types.Pointer); ok {
		t = p.Elem()
	}
	if n, ok := t.(*types.Named); ok && n.Obj().Pkg() != nil {
		return n.Obj().Pkg().Path() + "." + n.Obj().Name(), true
	}
	return "", false
}

func fnv64a(vals []string) uint64 {
	h := uint64(14695981039346656037)
	for _, s := range vals {
		for i := 0; i < len(s); i++ {
			h ^= uint64(s[i])
			h *= 1099511628211
		}
		h ^= 255
		h *= 1099511628211
	}
	return h
}

func init() {
	// metric.HashLabelValues: the repository's own function (and hash/fnv from the standard
	// library) is interpreted; for label values drawn from solver-indexed pools it is run
	// once per assignment of the index variables and the results form a lifted value
	const hashName = "github.com/flant/shell-operator/pkg/metric.HashLabelValues"
	intrinsics[hashName] = func(fr *frame, a []value) (value, bool) {
		vals, _ := a[0].([]value)
		allConc := true
		for _, v := range vals {
			if _, isStr := v.(string); !isStr {
				allConc = false
			}
		}
		if allConc {
			return nil, false // concrete: just interpret the real code
		}
		m := fr.m
		r, _, ok := m.lift(vals, func(c []value) (value, bool) {
			if m.bypassIntrinsic == nil {
				m.bypassIntrinsic = map[string]bool{}
			}
			m.bypassIntrinsic[hashName] = true
			defer func() { m.bypassIntrinsic[hashName] = false }()
			arg := make([]value, len(c))
			copy(arg, c)
			return call(m, fr.caller, token.NoPos, fr.fn, []value{arg}), true
		})
		if ok {
			return r, true
		}
		panic(engineErr("HashLabelValues on unbounded symbolic strings is not modelled"))
	}
	intrinsics["encoding/json.Marshal"] = func(fr *frame, a []value) (value, bool) {
		return tuple{&symBytes{fr.m.jsonText(a[0], 0)}, iface{}}, true
	}
	intrinsics["github.com/flant/shell-operator/pkg/utils/checksum.CalculateChecksum"] = func(fr *frame, a []value) (value, bool) {
		parts := a[0].([]value)
		if len(parts) == 1 {
			return fr.m.binopStr(token.ADD, "md5:", parts[0]), true
		}
		ss := make([]string, len(parts))
		for i, p := range parts {
			s, ok := p.(string)
			if !ok {
				panic(engineErr("checksum model: several symbolic strings"))
			}
			ss[i] = s
		}
		sort.Strings(ss)
		out := "md5:"
		for _, s := range ss {
			out += strconv.Itoa(len(s)) + ":" + s
		}
		return out, true
	}
}
