package gosym

import (
	"fmt"
	"go/ast"
	"math"
	"os"
	"path/filepath"
	"strings"

	"golang.org/x/tools/go/packages"
	"golang.org/x/tools/go/ssa"
	"golang.org/x/tools/go/ssa/ssautil"
)

func mathPow(a, b float64) float64 { return math.Pow(a, b) }

const RepoModule = "github.com/flant/shell-operator"

// Overlay builds the overlay map: every file under harnessRoot/<rel>/x.go is
// presented to the go tool as repoDir/<rel>/x.go.
func Overlay(repoDir string, roots ...string) (map[string][]byte, error) {
	ov := map[string][]byte{}
	for _, root := range roots {
		err := filepath.Walk(root, func(p string, info os.FileInfo, err error) error {
			if err != nil {
				return err
			}
			if info.IsDir() || !strings.HasSuffix(p, ".go") {
				return nil
			}
			rel, _ := filepath.Rel(root, p)
			b, err := os.ReadFile(p)
			if err != nil {
				return err
			}
			ov[filepath.Join(repoDir, rel)] = b
			return nil
		})
		if err != nil {
			return nil, err
		}
	}
	return ov, nil
}

// Load type-checks the given package patterns of the repo (with the overlay)
// and builds SSA for the whole dependency closure.
func Load(repoDir string, overlay map[string][]byte, patterns []string) (*Program, []*ssa.Package, error) {
	cfg := &packages.Config{
		Mode:    packages.LoadAllSyntax,
		Dir:     repoDir,
		Overlay: overlay,
		Env:     append(os.Environ(), "GOFLAGS=-mod=mod", "GOPROXY=off"),
	}
	pkgs, err := packages.Load(cfg, patterns...)
	if err != nil {
		return nil, nil, err
	}
	var errs []string
	packages.Visit(pkgs, nil, func(p *packages.Package) {
		for _, e := range p.Errors {
			if strings.HasPrefix(p.PkgPath, RepoModule) {
				errs = append(errs, e.Error())
			}
		}
	})
	if len(errs) > 0 {
		return nil, nil, fmt.Errorf("load errors:\n%s", strings.Join(errs, "\n"))
	}
	prog, spkgs := ssautil.AllPackages(pkgs, ssa.InstantiateGenerics)
	prog.Build()
	p := &Program{Prog: prog, Stubs: map[string]*ssa.Function{}, Guards: map[string]*ssa.Function{}, EngineOnly: map[string]bool{}, RepoPath: RepoModule}
	// stub annotations: //verif:stub <target> on function declarations in overlay files
	packages.Visit(pkgs, nil, func(pk *packages.Package) {
		if !strings.HasPrefix(pk.PkgPath, RepoModule) {
			return
		}
		sp := prog.Package(pk.Types)
		if sp == nil {
			return
		}
		for _, f := range pk.Syntax {
			for _, d := range f.Decls {
				fd, ok := d.(*ast.FuncDecl)
				if !ok || fd.Doc == nil {
					continue
				}
				for _, c := range fd.Doc.List {
					txt := strings.TrimSpace(strings.TrimPrefix(c.Text, "//"))
					engineOnly := false
					if strings.HasPrefix(txt, "verif:enginestub ") {
						// stub of code outside the repository: the engine redirects it, native
						// replay runs the real dependency
						engineOnly = true
						txt = "verif:stub " + strings.TrimPrefix(txt, "verif:enginestub ")
					}
					if !strings.HasPrefix(txt, "verif:stub ") {
						continue
					}
					target := strings.TrimSpace(strings.TrimPrefix(txt, "verif:stub "))
					target = strings.ReplaceAll(target, "$R", RepoModule)
					guard := ""
					if i := strings.Index(target, " if "); i >= 0 {
						guard = strings.TrimSpace(target[i+4:])
						target = strings.TrimSpace(target[:i])
					}
					fn := sp.Func(fd.Name.Name)
					if fn == nil {
						continue
					}
					p.Stubs[target] = fn
					if engineOnly {
						p.EngineOnly[target] = true
					}
					if guard != "" {
						g := sp.Func(guard)
						if g == nil {
							panic("stub guard not found: " + guard)
						}
						p.Guards[target] = g
					}
				}
			}
		}
	})
	return p, spkgs, nil
}

// FindFunc looks up a package-level function by name in the loaded packages.
func (p *Program) FindFunc(name string) *ssa.Function {
	for _, pk := range p.Prog.AllPackages() {
		if !strings.HasPrefix(pk.Pkg.Path(), RepoModule) {
			continue
		}
		if f := pk.Func(name); f != nil {
			return f
		}
	}
	return nil
}
