package gosym

// The per-path machine: an SSA interpreter derived from x/tools' go/ssa/interp
// (BSD licence, see LICENSE.x-tools), extended with symbolic scalars, solver
// decided branches, an ordered map model, modelled channels and threads.

import (
	"crypto/sha1"
	"fmt"
	"go/token"
	"go/types"
	"strings"
	"sync"

	"golang.org/x/tools/go/ssa"
)

type continuation int

const (
	kNext continuation = iota
	kReturn
	kJump
)

type deferred struct {
	fn    value
	args  []value
	instr *ssa.Defer
	tail  *deferred
}

type frame struct {
	m                *machine
	thr              *thread
	caller           *frame
	fn               *ssa.Function
	block, prevBlock *ssa.BasicBlock
	env              map[ssa.Value]value
	locals           []value
	defers           *deferred
	result           value
	panicking        bool
	panic            interface{}
	phitemps         []value
	cur              ssa.Instruction
}

type obsRec struct {
	tag    string
	text   string // concrete rendering when fully concrete
	leaves []value
	terms  []string
	sorts  []smtSort
	shape  string
}

type machine struct {
	p       *Program
	prog    *ssa.Program
	cfg     Config
	sol     *Solver
	res     *Result
	prefix  []decision
	pos     int
	trace   []decision
	alts    [][]decision
	pc      []string
	nvars   int
	nondets []NondetVal
	classes map[string]string
	steps   int

	globals  map[*ssa.Global]*value
	initDone map[*ssa.Package]bool
	sizes    types.Sizes

	bounds     map[string]string
	reached    map[string]bool
	funcs      map[string]string
	intrinsics map[string]int
	stubCalls  map[string]int
	noops      map[string]int
	uninit     map[string]int
	observed   []obsRec

	lastModel    []NondetVal
	sampleWanted bool
	validation   *PathSample

	mapOrder int // 0 insertion, 1 insertion+reverse, 2 all permutations
	counters map[string]int
	notes    map[string]value

	// threads
	threads        []*thread
	cur            *thread
	doneCh         chan interface{}
	wg             sync.WaitGroup
	locks          map[*value]*lockState
	preempts       int
	timerYields    int
	longTimerFired bool // a time-out (timer >= 1 s) delivered on this path
	inLongCheck    bool
	// intrinsics switched off while the real function is run per assignment of a lifted value
	bypassIntrinsic   map[string]bool
	clock             *symv
	uuidN             int
	tickBudget        int
	lastDoneSawClosed map[int]bool
	stopRequested     bool
	ctxKids           map[*ctxV][]*ctxV
	initRunning       *ssa.Package
	fsm               *fsModel
	hadKnown          bool
	knownPassed       []string // listed-finding assertions that failed concretely on this path
	syncMaps          map[*value]*mapV
	traceWhere        []string
	builders          map[*value]value
	errNotExist       iface
	concrete          []NondetVal
	cpos              int
	concreteMode      bool
	panicStack        []string
}

func newMachine(p *Program, cfg Config, sol *Solver, prefix []decision, res *Result) *machine {
	m := &machine{p: p, prog: p.Prog, cfg: cfg, sol: sol, res: res, prefix: prefix,
		classes: map[string]string{}, globals: map[*ssa.Global]*value{}, initDone: map[*ssa.Package]bool{},
		sizes:  &types.StdSizes{WordSize: 8, MaxAlign: 8},
		bounds: map[string]string{}, reached: map[string]bool{}, funcs: map[string]string{}, intrinsics: map[string]int{},
		stubCalls: map[string]int{}, noops: map[string]int{}, uninit: map[string]int{}, counters: map[string]int{}, notes: map[string]value{},
		locks: map[*value]*lockState{}, doneCh: make(chan interface{}, 1), tickBudget: 2, lastDoneSawClosed: map[int]bool{}}
	return m
}

type threadAbort struct{}

// runMain runs the harness entry as thread 0 and waits for the path to end.
// It re-panics the path outcome in the caller's goroutine.
func (m *machine) runMain(entry *ssa.Function) {
	t := m.newThread("main", entry, nil)
	m.cur = t
	t.wake <- true
	out := <-m.doneCh
	if out != nil {
		panic(out)
	}
	if !m.replaying() {
		m.pathModel()
	}
}

func (m *machine) killThreads() {
	for _, t := range m.threads {
		if !t.exited {
			select {
			case t.wake <- false:
			default:
			}
		}
	}
	m.wg.Wait()
}

func (fr *frame) get(key ssa.Value) value {
	switch key := key.(type) {
	case nil:
		return nil
	case *ssa.Function, *ssa.Builtin:
		return key
	case *ssa.Const:
		return constValue(key)
	case *ssa.Global:
		return fr.m.global(key)
	}
	if r, ok := fr.env[key]; ok {
		return r
	}
	panic(engineErr(fmt.Sprintf("get: no value for %T: %v", key, key.Name())))
}

func (m *machine) global(g *ssa.Global) *value {
	if r, ok := m.globals[g]; ok {
		return r
	}
	if g.Pkg != nil && !m.initDone[g.Pkg] {
		m.initDone[g.Pkg] = true
		path := g.Pkg.Pkg.Path()
		if m.cfg.InitPkgs[path] || defaultInit[path] || strings.HasPrefix(path, m.p.RepoPath) && !m.cfg.InitPkgs["-"+path] {
			m.runInit(g.Pkg)
		} else if initHasWork(g.Pkg) {
			m.uninit[path]++
		}
		if r, ok := m.globals[g]; ok {
			return r
		}
	}
	cell := zero(mustDeref(g.Type()))
	m.globals[g] = &cell
	return &cell
}

// packages whose initializers are plain error/variable definitions the models rely on
var defaultInit = map[string]bool{"internal/oserror": true, "io/fs": true, "io": true, "context": true, "path/filepath": true, "github.com/kennygrant/sanitize": true}

var initWorkCache sync.Map

func initHasWork(pkg *ssa.Package) bool {
	if v, ok := initWorkCache.Load(pkg); ok {
		return v.(bool)
	}
	work := false
	if f := pkg.Func("init"); f != nil {
		for _, b := range f.Blocks {
			for _, in := range b.Instrs {
				if st, ok := in.(*ssa.Store); ok {
					if g, ok := st.Addr.(*ssa.Global); ok && g.Name() != "init$guard" {
						work = true
					}
				}
			}
		}
	}
	initWorkCache.Store(pkg, work)
	return work
}

// runInit interprets the package initializer of pkg (its own body only: calls
// to other packages' init functions are skipped unless they are in scope).
func (m *machine) runInit(pkg *ssa.Package) {
	f := pkg.Func("init")
	if f == nil || f.Blocks == nil {
		return
	}
	saved := m.initRunning
	m.initRunning = pkg
	callSSA(m, m.cur.top, token.NoPos, f, nil, nil)
	m.initRunning = saved
}

func (fr *frame) runDefer(d *deferred) {
	var ok bool
	defer func() {
		if !ok {
			r := recover()
			if isControl(r) {
				panic(r)
			}
			fr.panicking = true
			fr.panic = r
		}
	}()
	call(fr.m, fr, d.instr.Pos(), d.fn, d.args)
	ok = true
}

func isControl(r interface{}) bool {
	switch r.(type) {
	case pathEnd, engineErr, threadAbort:
		return true
	case targetPanic:
		return false
	case nil:
		return false
	}
	return true // Go runtime errors inside the engine are engine bugs
}

func (fr *frame) runDefers() {
	for d := fr.defers; d != nil; d = d.tail {
		fr.runDefer(d)
	}
	fr.defers = nil
	if fr.panicking {
		panic(fr.panic)
	}
}

func (m *machine) lookupMethod(typ types.Type, meth *types.Func) *ssa.Function {
	return m.prog.LookupMethod(typ, meth.Pkg(), meth.Name())
}

func mustDeref(t types.Type) types.Type {
	if p, ok := t.Underlying().(*types.Pointer); ok {
		return p.Elem()
	}
	panic(engineErr(fmt.Sprintf("mustDeref: %v is not a pointer", t)))
}

func (m *machine) rtPanic(msg string) targetPanic {
	return targetPanic{iface{t: m.runtimeErrorString(), v: "runtime error: " + msg}}
}

func (m *machine) runtimeErrorString() types.Type {
	if rp := m.prog.ImportedPackage("runtime"); rp != nil {
		if t := rp.Type("errorString"); t != nil {
			return t.Object().Type()
		}
	}
	return types.Typ[types.String]
}

func (m *machine) ptr(v value, what string) *value {
	p, ok := v.(*value)
	if !ok {
		panic(engineErr(fmt.Sprintf("%s: expected pointer, got %T", what, v)))
	}
	if p == nil {
		panic(m.rtPanic("invalid memory address or nil pointer dereference"))
	}
	return p
}

// index bounds check against a concrete length; idx may be symbolic.
func (m *machine) indexIn(idx value, n int, what string) int {
	if sv, ok := idx.(*symv); ok {
		in := "(and (>= " + sv.t + " 0) (< " + sv.t + " " + smtInt(int64(n)) + "))"
		if sv.lo >= 0 && sv.hi < int64(n) {
			// in range by construction
		} else if !m.branch(in) {
			panic(m.rtPanic(fmt.Sprintf("index out of range [symbolic] with length %d", n)))
		}
		return int(m.concretize(sv, what))
	}
	i := asInt64(idx)
	if i < 0 || i >= int64(n) {
		panic(m.rtPanic(fmt.Sprintf("index out of range [%d] with length %d", i, n)))
	}
	return int(i)
}

func visitInstr(fr *frame, instr ssa.Instruction) continuation {
	m := fr.m
	fr.cur = instr
	m.steps++
	if m.steps > m.cfg.MaxSteps {
		panic(pathEnd{"limit", fmt.Sprintf("more than %d SSA instructions on one path%s", m.cfg.MaxSteps, m.where())})
	}
	switch instr := instr.(type) {
	case *ssa.DebugRef:

	case *ssa.UnOp:
		fr.env[instr] = m.unop(fr, instr, fr.get(instr.X))

	case *ssa.BinOp:
		fr.env[instr] = m.binop(instr.Op, instr.X.Type(), fr.get(instr.X), fr.get(instr.Y))

	case *ssa.Call:
		fn, args := prepareCall(fr, &instr.Call)
		fr.env[instr] = call(m, fr, instr.Pos(), fn, args)

	case *ssa.ChangeInterface:
		fr.env[instr] = fr.get(instr.X)

	case *ssa.ChangeType:
		fr.env[instr] = fr.get(instr.X)

	case *ssa.Convert:
		fr.env[instr] = m.conv(instr.Type(), instr.X.Type(), fr.get(instr.X))

	case *ssa.SliceToArrayPointer:
		fr.env[instr] = sliceToArrayPointer(instr.Type(), instr.X.Type(), fr.get(instr.X))

	case *ssa.MakeInterface:
		fr.env[instr] = iface{t: instr.X.Type(), v: fr.get(instr.X)}

	case *ssa.Extract:
		fr.env[instr] = fr.get(instr.Tuple).(tuple)[instr.Index]

	case *ssa.Slice:
		fr.env[instr] = m.slice(fr.get(instr.X), fr.get(instr.Low), fr.get(instr.High), fr.get(instr.Max))

	case *ssa.Return:
		switch len(instr.Results) {
		case 0:
		case 1:
			fr.result = fr.get(instr.Results[0])
		default:
			var res []value
			for _, r := range instr.Results {
				res = append(res, fr.get(r))
			}
			fr.result = tuple(res)
		}
		fr.block = nil
		return kReturn

	case *ssa.RunDefers:
		fr.runDefers()

	case *ssa.Panic:
		panic(targetPanic{fr.get(instr.X)})

	case *ssa.Send:
		m.chanSend(fr.get(instr.Chan), fr.get(instr.X))

	case *ssa.Store:
		store(mustDeref(instr.Addr.Type()), m.ptr(fr.get(instr.Addr), "store"), fr.get(instr.Val))

	case *ssa.If:
		succ := 1
		switch c := fr.get(instr.Cond).(type) {
		case bool:
			if c {
				succ = 0
			}
		case *symv:
			if c.opaque {
				m.inconclusive("IMPRECISE opaque value reached a branch" + m.where())
			}
			if m.branch(c.t) {
				succ = 0
			}
		default:
			panic(engineErr(fmt.Sprintf("If on %T", c)))
		}
		fr.prevBlock, fr.block = fr.block, fr.block.Succs[succ]
		return kJump

	case *ssa.Jump:
		fr.prevBlock, fr.block = fr.block, fr.block.Succs[0]
		return kJump

	case *ssa.Defer:
		fn, args := prepareCall(fr, &instr.Call)
		defers := &fr.defers
		if instr.DeferStack != nil {
			if into := fr.get(instr.DeferStack); into != nil {
				defers = into.(**deferred)
			}
		}
		*defers = &deferred{fn: fn, args: args, instr: instr, tail: *defers}

	case *ssa.Go:
		fn, args := prepareCall(fr, &instr.Call)
		m.spawn(fnName(fn), fn, args)

	case *ssa.MakeChan:
		fr.env[instr] = m.makeChan(int(m.concInt(fr.get(instr.Size), "chan size")), instr.Type().Underlying().(*types.Chan).Elem())

	case *ssa.Alloc:
		var addr *value
		if instr.Heap {
			addr = new(value)
			fr.env[instr] = addr
		} else {
			addr = fr.env[instr].(*value)
		}
		*addr = zero(mustDeref(instr.Type()))

	case *ssa.MakeSlice:
		c := m.concInt(fr.get(instr.Cap), "make cap")
		l := m.concInt(fr.get(instr.Len), "make len")
		if l < 0 || c < l {
			panic(m.rtPanic("makeslice: len out of range"))
		}
		sl := make([]value, c)
		tElt := instr.Type().Underlying().(*types.Slice).Elem()
		for i := range sl {
			sl[i] = zero(tElt)
		}
		fr.env[instr] = sl[:l]

	case *ssa.MakeMap:
		fr.env[instr] = &mapV{keyT: instr.Type().Underlying().(*types.Map).Key()}

	case *ssa.Range:
		fr.env[instr] = m.rangeIter(fr.get(instr.X), instr.X.Type())

	case *ssa.Next:
		fr.env[instr] = fr.get(instr.Iter).(iter).next()

	case *ssa.FieldAddr:
		p := m.ptr(fr.get(instr.X), "fieldaddr")
		fr.env[instr] = &(*p).(structure)[instr.Field]

	case *ssa.Field:
		fr.env[instr] = fr.get(instr.X).(structure)[instr.Field]

	case *ssa.IndexAddr:
		x := fr.get(instr.X)
		idx := fr.get(instr.Index)
		switch x := x.(type) {
		case []value:
			fr.env[instr] = &x[m.indexIn(idx, len(x), "slice index")]
		case *value:
			a := (*m.ptr(x, "indexaddr")).(array)
			fr.env[instr] = &a[m.indexIn(idx, len(a), "array index")]
		default:
			panic(engineErr(fmt.Sprintf("unexpected x type in IndexAddr: %T", x)))
		}

	case *ssa.Index:
		x := fr.get(instr.X)
		idx := fr.get(instr.Index)
		switch x := x.(type) {
		case array:
			fr.env[instr] = x[m.indexIn(idx, len(x), "array index")]
		case string:
			if _, ok := idx.(*symv); ok {
				fr.env[instr] = m.strIndex(x, idx)
			} else {
				fr.env[instr] = x[m.indexIn(idx, len(x), "string index")]
			}
		case *symv:
			fr.env[instr] = m.strIndex(x, idx)
		default:
			panic(engineErr(fmt.Sprintf("unexpected x type in Index: %T", x)))
		}

	case *ssa.Lookup:
		fr.env[instr] = m.lookup(instr, fr.get(instr.X), fr.get(instr.Index))

	case *ssa.MapUpdate:
		mv := fr.get(instr.Map).(*mapV)
		if mv == nil {
			panic(targetPanic{iface{t: m.runtimeErrorString(), v: "assignment to entry in nil map"}})
		}
		m.mapInsert(mv, fr.get(instr.Key), fr.get(instr.Value))

	case *ssa.TypeAssert:
		fr.env[instr] = m.typeAssert(instr, fr.get(instr.X).(iface))

	case *ssa.MakeClosure:
		var bindings []value
		for _, binding := range instr.Bindings {
			bindings = append(bindings, fr.get(binding))
		}
		fr.env[instr] = &closure{instr.Fn.(*ssa.Function), bindings}

	case *ssa.Phi:
		panic(engineErr("unreachable phi"))

	case *ssa.Select:
		fr.env[instr] = m.doSelect(fr, instr)

	default:
		panic(engineErr(fmt.Sprintf("unexpected instruction: %T", instr)))
	}
	return kNext
}

func fnName(fn value) string {
	switch f := fn.(type) {
	case *ssa.Function:
		return f.String()
	case *closure:
		return f.Fn.String()
	case *nativeFn:
		return f.name
	}
	return fmt.Sprintf("%T", fn)
}

func prepareCall(fr *frame, call *ssa.CallCommon) (fn value, args []value) {
	v := fr.get(call.Value)
	if call.Method == nil {
		fn = v
	} else {
		recv := v.(iface)
		if recv.t == nil {
			panic(fr.m.rtPanic("invalid memory address or nil pointer dereference (method " + call.Method.Name() + " on nil interface)"))
		}
		if nat, ok := recv.v.(nativeObj); ok {
			fn = &nativeFn{name: call.Method.Name(), f: func(fr *frame, args []value) value {
				return nat.callMethod(fr, call.Method.Name(), args[1:])
			}}
		} else if f := fr.m.lookupMethod(recv.t, call.Method); f == nil {
			panic(engineErr(fmt.Sprintf("method set for dynamic type %v does not contain %s", recv.t, call.Method)))
		} else {
			fn = f
		}
		args = append(args, recv.v)
	}
	for _, arg := range call.Args {
		args = append(args, fr.get(arg))
	}
	return
}

// nativeFn is a function value implemented by the engine.
type nativeFn struct {
	name string
	f    func(fr *frame, args []value) value
}

// nativeObj is a value implemented by the engine that receives interface
// method calls (contexts).
type nativeObj interface {
	callMethod(fr *frame, name string, args []value) value
}

func call(m *machine, caller *frame, callpos token.Pos, fn value, args []value) value {
	switch fn := fn.(type) {
	case *ssa.Function:
		if fn == nil {
			panic(m.rtPanic("invalid memory address or nil pointer dereference (call of nil func)"))
		}
		return callSSA(m, caller, callpos, fn, args, nil)
	case *closure:
		return callSSA(m, caller, callpos, fn.Fn, args, fn.Env)
	case *ssa.Builtin:
		return m.callBuiltin(caller, callpos, fn, args)
	case *nativeFn:
		return fn.f(caller, args)
	}
	panic(engineErr(fmt.Sprintf("cannot call %T", fn)))
}

var fnHashCache sync.Map

func fnHash(fn *ssa.Function) string {
	if v, ok := fnHashCache.Load(fn); ok {
		return v.(string)
	}
	var b strings.Builder
	fn.WriteTo(&b)
	h := fmt.Sprintf("%x", sha1.Sum([]byte(b.String())))[:12]
	pos := fn.Prog.Fset.Position(fn.Pos())
	s := fmt.Sprintf("%s:%d#%s", pos.Filename, pos.Line, h)
	fnHashCache.Store(fn, s)
	return s
}

func originOf(fn *ssa.Function) *ssa.Function {
	if o := fn.Origin(); o != nil {
		return o
	}
	return fn
}

func callSSA(m *machine, caller *frame, callpos token.Pos, fn *ssa.Function, args []value, env []value) value {
	if fn.Parent() == nil {
		if fn.Pkg != nil && fn.Name() == "init" && fn.Synthetic != "" {
			// package initializer: only packages in scope are initialised
			if m.initDone[fn.Pkg] && (caller == nil || caller.fn != fn) && m.initRunning != fn.Pkg {
				return nil
			}
			path := fn.Pkg.Pkg.Path()
			m.initDone[fn.Pkg] = true
			if !(m.cfg.InitPkgs[path] || defaultInit[path] || strings.HasPrefix(path, m.p.RepoPath) && !m.cfg.InitPkgs["-"+path]) {
				if initHasWork(fn.Pkg) {
					m.uninit[path]++
				}
				return nil
			}
		}
		name := originOf(fn).String()
		if st := m.p.Stubs[name]; st != nil && (caller == nil || caller.fn != st) {
			active := true
			if g := m.p.Guards[name]; g != nil {
				b, ok := callSSA(m, caller, callpos, g, nil, nil).(bool)
				if !ok {
					panic(engineErr("stub guard of " + name + " must return a concrete bool"))
				}
				active = b
			}
			if active {
				m.stubCalls[name]++
				return callSSA(m, caller, callpos, st, args, nil)
			}
		}
		if in := intrinsics[name]; in != nil && !m.bypassIntrinsic[name] {
			fr := &frame{m: m, caller: caller, fn: fn, thr: m.cur}
			if v, ok := in(fr, args); ok {
				m.intrinsics[name]++
				return v
			}
		}
		if fn.Pkg != nil || fn.Signature.Recv() != nil {
			if pp := pkgPathOf(fn); pp != "" {
				if m.isNoop(pp) {
					m.noops[pp]++
					return noopResults(fn.Signature)
				}
				if strings.HasSuffix(pp, "/pkg/zzverif") {
					if h := zzAPI[fn.Name()]; h != nil {
						fr := &frame{m: m, caller: caller, fn: fn, thr: m.cur}
						return h(fr, args)
					}
				}
			}
		}
		if fn.Blocks == nil {
			panic(engineErr("no code for function: " + name + " (needs an intrinsic or a stub)"))
		}
	}
	if fn.TypeParams().Len() > 0 && len(fn.TypeArgs()) == 0 {
		panic(engineErr("uninstantiated generic function " + fn.String()))
	}
	if fn.Pkg != nil && strings.HasPrefix(fn.Pkg.Pkg.Path(), m.p.RepoPath) {
		if _, ok := m.funcs[fn.String()]; !ok {
			m.funcs[fn.String()] = fnHash(fn)
		}
	} else if fn.Pkg == nil && fn.Parent() != nil {
		// closure: attribute to parent
	}
	fr := &frame{m: m, caller: caller, fn: fn, thr: m.cur}
	if m.cur != nil {
		saved := m.cur.top
		m.cur.top = fr
		thr := m.cur
		defer func() { thr.top = saved }()
	}
	fr.env = make(map[ssa.Value]value)
	fr.block = fn.Blocks[0]
	fr.locals = make([]value, len(fn.Locals))
	for i, l := range fn.Locals {
		fr.locals[i] = zero(mustDeref(l.Type()))
		fr.env[l] = &fr.locals[i]
	}
	for i, p := range fn.Params {
		fr.env[p] = args[i]
	}
	for i, fv := range fn.FreeVars {
		fr.env[fv] = env[i]
	}
	for fr.block != nil {
		runFrame(fr)
	}
	return fr.result
}

func pkgPathOf(fn *ssa.Function) string {
	if fn.Pkg != nil {
		return fn.Pkg.Pkg.Path()
	}
	if recv := fn.Signature.Recv(); recv != nil {
		t := recv.Type()
		if p, ok := t.(*types.Pointer); ok {
			t = p.Elem()
		}
		if n, ok := t.(*types.Named); ok && n.Obj().Pkg() != nil {
			return n.Obj().Pkg().Path()
		}
	}
	if o := fn.Object(); o != nil && o.Pkg() != nil {
		return o.Pkg().Path()
	}
	return ""
}

var defaultNoop = []string{
	"github.com/deckhouse/deckhouse/pkg/log",
	"log/slog",
	"log",
	"runtime/trace",
	"github.com/sirupsen/logrus",
	"k8s.io/klog",
}

func (m *machine) isNoop(path string) bool {
	for _, p := range defaultNoop {
		if path == p || strings.HasPrefix(path, p+"/") {
			return true
		}
	}
	for _, p := range m.cfg.NoopPkgs {
		if path == p || strings.HasPrefix(path, p+"/") {
			return true
		}
	}
	return false
}

// noopResults: like zeroResults, but a *struct result is a fresh zero object
// (a usable do-nothing logger rather than a nil pointer).
func noopResults(sig *types.Signature) value {
	r := sig.Results()
	mk := func(t types.Type) value {
		if p, ok := t.Underlying().(*types.Pointer); ok {
			if _, ok := p.Elem().Underlying().(*types.Struct); ok {
				cell := zero(p.Elem())
				return &cell
			}
		}
		return zero(t)
	}
	switch r.Len() {
	case 0:
		return nil
	case 1:
		return mk(r.At(0).Type())
	}
	t := make(tuple, r.Len())
	for i := range t {
		t[i] = mk(r.At(i).Type())
	}
	return t
}

func zeroResults(sig *types.Signature) value {
	r := sig.Results()
	switch r.Len() {
	case 0:
		return nil
	case 1:
		return zero(r.At(0).Type())
	}
	t := make(tuple, r.Len())
	for i := range t {
		t[i] = zero(r.At(i).Type())
	}
	return t
}

func runFrame(fr *frame) {
	defer func() {
		if fr.block == nil {
			return
		}
		r := recover()
		if isControl(r) {
			switch e := r.(type) {
			case pathEnd, threadAbort:
			case engineErr:
				if !strings.Contains(string(e), " @ ") {
					r = engineErr(string(e) + fr.m.whereAll())
				}
			default:
				r = engineErr(fmt.Sprintf("ENGINE-CRASH %v%s", r, fr.m.whereAll()))
			}
			panic(r)
		}
		if fr.m.panicStack == nil {
			fr.m.panicStack = fr.m.stack()
		}
		fr.panicking = true
		fr.panic = r
		fr.runDefers()
		fr.block = fr.fn.Recover
	}()
	for {
		nonPhis := executePhis(fr)
		for _, instr := range nonPhis {
			if visitInstr(fr, instr) == kReturn {
				return
			}
		}
	}
}

func executePhis(fr *frame) []ssa.Instruction {
	firstNonPhi := -1
	for i, instr := range fr.block.Instrs {
		if _, ok := instr.(*ssa.Phi); !ok {
			firstNonPhi = i
			break
		}
	}
	nonPhis := fr.block.Instrs[firstNonPhi:]
	if firstNonPhi > 0 {
		phis := fr.block.Instrs[:firstNonPhi]
		predIndex := -1
		for i, p := range fr.block.Preds {
			if p == fr.prevBlock {
				predIndex = i
				break
			}
		}
		fr.phitemps = fr.phitemps[:0]
		for _, phi := range phis {
			phi := phi.(*ssa.Phi)
			fr.phitemps = append(fr.phitemps, fr.get(phi.Edges[predIndex]))
		}
		for i, phi := range phis {
			fr.env[phi.(*ssa.Phi)] = fr.phitemps[i]
		}
	}
	return nonPhis
}

func doRecover(caller *frame) value {
	if caller != nil && !caller.panicking &&
		caller.caller != nil && caller.caller.panicking {
		p := caller.caller.panic
		switch p := p.(type) {
		case targetPanic:
			caller.caller.panicking = false
			caller.caller.panic = nil
			caller.m.panicStack = nil
			return p.v
		}
	}
	return iface{}
}

// diagnostics ---------------------------------------------------------------

func (m *machine) where() string {
	if m.cur == nil || m.cur.top == nil {
		return ""
	}
	fr := m.cur.top
	for fr != nil {
		if fr.cur != nil && fr.cur.Pos() != token.NoPos {
			return " at " + m.prog.Fset.Position(fr.cur.Pos()).String() + " in " + fr.fn.String()
		}
		if fr.caller == nil {
			return " in " + fr.fn.String()
		}
		fr = fr.caller
	}
	return ""
}

func (m *machine) whereAll() string {
	s := m.stack()
	if len(s) > 8 {
		s = s[:8]
	}
	return " @ " + strings.Join(s, " <- ")
}

func (m *machine) stack() []string {
	var out []string
	if m.cur == nil {
		return nil
	}
	for fr := m.cur.top; fr != nil; fr = fr.caller {
		pos := ""
		if fr.cur != nil && fr.cur.Pos() != token.NoPos {
			p := m.prog.Fset.Position(fr.cur.Pos())
			pos = fmt.Sprintf("%s:%d", shortFile(p.Filename), p.Line)
		}
		out = append(out, shortFn(fr.fn.String())+"("+pos+")")
		if len(out) > 24 {
			break
		}
	}
	return out
}

func shortFile(f string) string {
	if i := strings.LastIndex(f, "/"); i >= 0 {
		return f[i+1:]
	}
	return f
}

func shortFn(f string) string {
	return strings.ReplaceAll(f, "github.com/flant/shell-operator/", "")
}

func (m *machine) panicText(p targetPanic) string {
	switch v := p.v.(type) {
	case iface:
		switch s := v.v.(type) {
		case string:
			return s
		case *symv:
			return "symbolic:" + s.t
		}
		if v.t != nil {
			// error value: try its Error method text when it is a simple struct with a string
			return fmt.Sprintf("%s %s", v.t, toString(v.v))
		}
	}
	return toString(p.v)
}
