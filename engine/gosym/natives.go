package gosym

import (
	"math"
	"strconv"
	"time"
)

// Pure math functions are evaluated natively on concrete arguments.
func init() {
	f1 := map[string]func(float64) float64{
		"math.Log": math.Log, "math.Exp": math.Exp, "math.Sqrt": math.Sqrt, "math.Floor": math.Floor,
		"math.Ceil": math.Ceil, "math.Abs": math.Abs, "math.Trunc": math.Trunc, "math.Round": math.Round,
		"math.Log2": math.Log2, "math.Log10": math.Log10, "math.Log1p": math.Log1p, "math.Exp2": math.Exp2,
	}
	for name, f := range f1 {
		f := f
		name := name
		intrinsics[name] = func(fr *frame, args []value) (value, bool) {
			a, ok := args[0].(float64)
			if !ok {
				panic(engineErr(name + " on a symbolic float is not modelled"))
			}
			return f(a), true
		}
	}
	f2 := map[string]func(float64, float64) float64{
		"math.Pow": math.Pow, "math.Mod": math.Mod, "math.Max": math.Max, "math.Min": math.Min,
	}
	for name, f := range f2 {
		intrinsics[name] = inMath2(f)
	}
	intrinsics["math.IsNaN"] = func(fr *frame, args []value) (value, bool) {
		a, ok := args[0].(float64)
		if !ok {
			return false, true // symbolic reals are finite by construction
		}
		return math.IsNaN(a), true
	}
	intrinsics["math.IsInf"] = func(fr *frame, args []value) (value, bool) {
		a, ok := args[0].(float64)
		if !ok {
			return false, true
		}
		return math.IsInf(a, int(asInt64(args[1]))), true
	}
	intrinsics["math.Inf"] = func(fr *frame, args []value) (value, bool) {
		return math.Inf(int(asInt64(args[0]))), true
	}
	intrinsics["math.NaN"] = func(fr *frame, args []value) (value, bool) { return math.NaN(), true }
	intrinsics["math.Float64bits"] = func(fr *frame, args []value) (value, bool) {
		a, ok := args[0].(float64)
		if !ok {
			panic(engineErr("math.Float64bits on a symbolic float"))
		}
		return math.Float64bits(a), true
	}
	intrinsics["math.Float64frombits"] = func(fr *frame, args []value) (value, bool) {
		return math.Float64frombits(asUint64(args[0])), true
	}
}

// strconv / time parsers on concrete strings are evaluated natively.
func init() {
	intrinsics["strconv.ParseInt"] = func(fr *frame, a []value) (value, bool) {
		s, ok := a[0].(string)
		if !ok {
			s = fr.m.concretizeStr(a[0])
		}
		n, err := strconv.ParseInt(s, int(asInt64(a[1])), int(asInt64(a[2])))
		if err != nil {
			return tuple{n, fr.m.errIface(err.Error())}, true
		}
		return tuple{n, iface{}}, true
	}
	intrinsics["strconv.Atoi"] = func(fr *frame, a []value) (value, bool) {
		s, ok := a[0].(string)
		if !ok {
			s = fr.m.concretizeStr(a[0])
		}
		n, err := strconv.Atoi(s)
		if err != nil {
			return tuple{n, fr.m.errIface(err.Error())}, true
		}
		return tuple{n, iface{}}, true
	}
	intrinsics["strconv.ParseBool"] = func(fr *frame, a []value) (value, bool) {
		s, ok := a[0].(string)
		if !ok {
			s = fr.m.concretizeStr(a[0])
		}
		b, err := strconv.ParseBool(s)
		if err != nil {
			return tuple{b, fr.m.errIface(err.Error())}, true
		}
		return tuple{b, iface{}}, true
	}
	intrinsics["strconv.ParseFloat"] = func(fr *frame, a []value) (value, bool) {
		s, ok := a[0].(string)
		if !ok {
			s = fr.m.concretizeStr(a[0])
		}
		f, err := strconv.ParseFloat(s, int(asInt64(a[1])))
		if err != nil {
			return tuple{f, fr.m.errIface(err.Error())}, true
		}
		return tuple{f, iface{}}, true
	}
	intrinsics["time.ParseDuration"] = func(fr *frame, a []value) (value, bool) {
		s, ok := a[0].(string)
		if !ok {
			s = fr.m.concretizeStr(a[0])
		}
		d, err := time.ParseDuration(s)
		if err != nil {
			return tuple{int64(d), fr.m.errIface(err.Error())}, true
		}
		return tuple{int64(d), iface{}}, true
	}
}
