// Copyright 2013 The Go Authors. All rights reserved.
// Use of this source code is governed by a BSD-style
// license that can be found in the LICENSE file.

package gosym

import (
	"fmt"
	"go/constant"
	"go/token"
	"go/types"
	"unsafe"

	"golang.org/x/tools/go/ssa"
)

// If the target program panics, the interpreter panics with this type.
type targetPanic struct {
	v value
}

func (p targetPanic) String() string {
	return toString(p.v)
}

// If the target program calls exit, the interpreter panics with this type.
type exitPanic int

// constValue returns the value of the constant with the
// dynamic type tag appropriate for c.Type().
func constValue(c *ssa.Const) value {
	if c.Value == nil {
		return zero(c.Type()) // typed zero
	}
	// c is not a type parameter so it's underlying type is basic.

	if t, ok := c.Type().Underlying().(*types.Basic); ok {
		// TODO(adonovan): eliminate untyped constants from SSA form.
		switch t.Kind() {
		case types.Bool, types.UntypedBool:
			return constant.BoolVal(c.Value)
		case types.Int, types.UntypedInt:
			// Assume sizeof(int) is same on host and target.
			return int(c.Int64())
		case types.Int8:
			return int8(c.Int64())
		case types.Int16:
			return int16(c.Int64())
		case types.Int32, types.UntypedRune:
			return int32(c.Int64())
		case types.Int64:
			return c.Int64()
		case types.Uint:
			// Assume sizeof(uint) is same on host and target.
			return uint(c.Uint64())
		case types.Uint8:
			return uint8(c.Uint64())
		case types.Uint16:
			return uint16(c.Uint64())
		case types.Uint32:
			return uint32(c.Uint64())
		case types.Uint64:
			return c.Uint64()
		case types.Uintptr:
			// Assume sizeof(uintptr) is same on host and target.
			return uintptr(c.Uint64())
		case types.Float32:
			return float32(c.Float64())
		case types.Float64, types.UntypedFloat:
			return c.Float64()
		case types.Complex64:
			return complex64(c.Complex128())
		case types.Complex128, types.UntypedComplex:
			return c.Complex128()
		case types.String, types.UntypedString:
			if c.Value.Kind() == constant.String {
				return constant.StringVal(c.Value)
			}
			return string(rune(c.Int64()))
		}
	}

	panic(fmt.Sprintf("constValue: %s", c))
}

// fitsInt returns true if x fits in type int according to sizes.
func fitsInt(x int64, sizes types.Sizes) bool {
	intSize := sizes.Sizeof(types.Typ[types.Int])
	if intSize < sizes.Sizeof(types.Typ[types.Int64]) {
		maxInt := int64(1)<<((intSize*8)-1) - 1
		minInt := -int64(1) << ((intSize * 8) - 1)
		return minInt <= x && x <= maxInt
	}
	return true
}

// asInt64 converts x, which must be an integer, to an int64.
//
// Callers that need a value directly usable as an int should combine this with fitsInt().
func asInt64(x value) int64 {
	switch x := x.(type) {
	case int:
		return int64(x)
	case int8:
		return int64(x)
	case int16:
		return int64(x)
	case int32:
		return int64(x)
	case int64:
		return x
	case uint:
		return int64(x)
	case uint8:
		return int64(x)
	case uint16:
		return int64(x)
	case uint32:
		return int64(x)
	case uint64:
		return int64(x)
	case uintptr:
		return int64(x)
	}
	panic(fmt.Sprintf("cannot convert %T to int64", x))
}

// asUint64 converts x, which must be an unsigned integer, to a uint64
// suitable for use as a bitwise shift count.
func asUint64(x value) uint64 {
	switch x := x.(type) {
	case uint:
		return uint64(x)
	case uint8:
		return uint64(x)
	case uint16:
		return uint64(x)
	case uint32:
		return uint64(x)
	case uint64:
		return x
	case uintptr:
		return uint64(x)
	}
	panic(fmt.Sprintf("cannot convert %T to uint64", x))
}

// asUnsigned returns the value of x, which must be an integer type, as its equivalent unsigned type,
// and returns true if x is non-negative.
func asUnsigned(x value) (value, bool) {
	switch x := x.(type) {
	case int:
		return uint(x), x >= 0
	case int8:
		return uint8(x), x >= 0
	case int16:
		return uint16(x), x >= 0
	case int32:
		return uint32(x), x >= 0
	case int64:
		return uint64(x), x >= 0
	case uint, uint8, uint32, uint64, uintptr:
		return x, true
	}
	panic(fmt.Sprintf("cannot convert %T to unsigned", x))
}

// zero returns a new "zero" value of the specified type.
func zero(t types.Type) value {
	switch t := t.(type) {
	case *types.Basic:
		if t.Kind() == types.UntypedNil {
			panic("untyped nil has no zero value")
		}
		if t.Info()&types.IsUntyped != 0 {
			// TODO(adonovan): make it an invariant that
			// this is unreachable.  Currently some
			// constants have 'untyped' types when they
			// should be defaulted by the typechecker.
			t = types.Default(t).(*types.Basic)
		}
		switch t.Kind() {
		case types.Bool:
			return false
		case types.Int:
			return int(0)
		case types.Int8:
			return int8(0)
		case types.Int16:
			return int16(0)
		case types.Int32:
			return int32(0)
		case types.Int64:
			return int64(0)
		case types.Uint:
			return uint(0)
		case types.Uint8:
			return uint8(0)
		case types.Uint16:
			return uint16(0)
		case types.Uint32:
			return uint32(0)
		case types.Uint64:
			return uint64(0)
		case types.Uintptr:
			return uintptr(0)
		case types.Float32:
			return float32(0)
		case types.Float64:
			return float64(0)
		case types.Complex64:
			return complex64(0)
		case types.Complex128:
			return complex128(0)
		case types.String:
			return ""
		case types.UnsafePointer:
			return unsafe.Pointer(nil)
		default:
			panic(fmt.Sprint("zero for unexpected type:", t))
		}
	case *types.Pointer:
		return (*value)(nil)
	case *types.Array:
		a := make(array, t.Len())
		for i := range a {
			a[i] = zero(t.Elem())
		}
		return a
	case *types.Named:
		return zero(t.Underlying())
	case *types.Alias:
		return zero(types.Unalias(t))
	case *types.Interface:
		return iface{} // nil type, methodset and value
	case *types.Slice:
		return []value(nil)
	case *types.Struct:
		s := make(structure, t.NumFields())
		for i := range s {
			s[i] = zero(t.Field(i).Type())
		}
		return s
	case *types.Tuple:
		if t.Len() == 1 {
			return zero(t.At(0).Type())
		}
		s := make(tuple, t.Len())
		for i := range s {
			s[i] = zero(t.At(i).Type())
		}
		return s
	case *types.Chan:
		return (*chanV)(nil)
	case *types.Map:
		return (*mapV)(nil)
	case *types.TypeParam:
		panic(engineErr("zero of type parameter"))
	case *types.Signature:
		return (*ssa.Function)(nil)
	}
	panic(fmt.Sprint("zero: unexpected ", t))
}

// binop implements all arithmetic and logical binary operators for
// numeric datatypes and strings.  Both operands must have identical
// dynamic type.
func binopConcrete(op token.Token, t types.Type, x, y value) value {
	switch op {
	case token.ADD:
		switch x.(type) {
		case int:
			return x.(int) + y.(int)
		case int8:
			return x.(int8) + y.(int8)
		case int16:
			return x.(int16) + y.(int16)
		case int32:
			return x.(int32) + y.(int32)
		case int64:
			return x.(int64) + y.(int64)
		case uint:
			return x.(uint) + y.(uint)
		case uint8:
			return x.(uint8) + y.(uint8)
		case uint16:
			return x.(uint16) + y.(uint16)
		case uint32:
			return x.(uint32) + y.(uint32)
		case uint64:
			return x.(uint64) + y.(uint64)
		case uintptr:
			return x.(uintptr) + y.(uintptr)
		case float32:
			return x.(float32) + y.(float32)
		case float64:
			return x.(float64) + y.(float64)
		case complex64:
			return x.(complex64) + y.(complex64)
		case complex128:
			return x.(complex128) + y.(complex128)
		case string:
			return x.(string) + y.(string)
		}

	case token.SUB:
		switch x.(type) {
		case int:
			return x.(int) - y.(int)
		case int8:
			return x.(int8) - y.(int8)
		case int16:
			return x.(int16) - y.(int16)
		case int32:
			return x.(int32) - y.(int32)
		case int64:
			return x.(int64) - y.(int64)
		case uint:
			return x.(uint) - y.(uint)
		case uint8:
			return x.(uint8) - y.(uint8)
		case uint16:
			return x.(uint16) - y.(uint16)
		case uint32:
			return x.(uint32) - y.(uint32)
		case uint64:
			return x.(uint64) - y.(uint64)
		case uintptr:
			return x.(uintptr) - y.(uintptr)
		case float32:
			return x.(float32) - y.(float32)
		case float64:
			return x.(float64) - y.(float64)
		case complex64:
			return x.(complex64) - y.(complex64)
		case complex128:
			return x.(complex128) - y.(complex128)
		}

	case token.MUL:
		switch x.(type) {
		case int:
			return x.(int) * y.(int)
		case int8:
			return x.(int8) * y.(int8)
		case int16:
			return x.(int16) * y.(int16)
		case int32:
			return x.(int32) * y.(int32)
		case int64:
			return x.(int64) * y.(int64)
		case uint:
			return x.(uint) * y.(uint)
		case uint8:
			return x.(uint8) * y.(uint8)
		case uint16:
			return x.(uint16) * y.(uint16)
		case uint32:
			return x.(uint32) * y.(uint32)
		case uint64:
			return x.(uint64) * y.(uint64)
		case uintptr:
			return x.(uintptr) * y.(uintptr)
		case float32:
			return x.(float32) * y.(float32)
		case float64:
			return x.(float64) * y.(float64)
		case complex64:
			return x.(complex64) * y.(complex64)
		case complex128:
			return x.(complex128) * y.(complex128)
		}

	case token.QUO:
		switch x.(type) {
		case int:
			return x.(int) / y.(int)
		case int8:
			return x.(int8) / y.(int8)
		case int16:
			return x.(int16) / y.(int16)
		case int32:
			return x.(int32) / y.(int32)
		case int64:
			return x.(int64) / y.(int64)
		case uint:
			return x.(uint) / y.(uint)
		case uint8:
			return x.(uint8) / y.(uint8)
		case uint16:
			return x.(uint16) / y.(uint16)
		case uint32:
			return x.(uint32) / y.(uint32)
		case uint64:
			return x.(uint64) / y.(uint64)
		case uintptr:
			return x.(uintptr) / y.(uintptr)
		case float32:
			return x.(float32) / y.(float32)
		case float64:
			return x.(float64) / y.(float64)
		case complex64:
			return x.(complex64) / y.(complex64)
		case complex128:
			return x.(complex128) / y.(complex128)
		}

	case token.REM:
		switch x.(type) {
		case int:
			return x.(int) % y.(int)
		case int8:
			return x.(int8) % y.(int8)
		case int16:
			return x.(int16) % y.(int16)
		case int32:
			return x.(int32) % y.(int32)
		case int64:
			return x.(int64) % y.(int64)
		case uint:
			return x.(uint) % y.(uint)
		case uint8:
			return x.(uint8) % y.(uint8)
		case uint16:
			return x.(uint16) % y.(uint16)
		case uint32:
			return x.(uint32) % y.(uint32)
		case uint64:
			return x.(uint64) % y.(uint64)
		case uintptr:
			return x.(uintptr) % y.(uintptr)
		}

	case token.AND:
		switch x.(type) {
		case int:
			return x.(int) & y.(int)
		case int8:
			return x.(int8) & y.(int8)
		case int16:
			return x.(int16) & y.(int16)
		case int32:
			return x.(int32) & y.(int32)
		case int64:
			return x.(int64) & y.(int64)
		case uint:
			return x.(uint) & y.(uint)
		case uint8:
			return x.(uint8) & y.(uint8)
		case uint16:
			return x.(uint16) & y.(uint16)
		case uint32:
			return x.(uint32) & y.(uint32)
		case uint64:
			return x.(uint64) & y.(uint64)
		case uintptr:
			return x.(uintptr) & y.(uintptr)
		}

	case token.OR:
		switch x.(type) {
		case int:
			return x.(int) | y.(int)
		case int8:
			return x.(int8) | y.(int8)
		case int16:
			return x.(int16) | y.(int16)
		case int32:
			return x.(int32) | y.(int32)
		case int64:
			return x.(int64) | y.(int64)
		case uint:
			return x.(uint) | y.(uint)
		case uint8:
			return x.(uint8) | y.(uint8)
		case uint16:
			return x.(uint16) | y.(uint16)
		case uint32:
			return x.(uint32) | y.(uint32)
		case uint64:
			return x.(uint64) | y.(uint64)
		case uintptr:
			return x.(uintptr) | y.(uintptr)
		}

	case token.XOR:
		switch x.(type) {
		case int:
			return x.(int) ^ y.(int)
		case int8:
			return x.(int8) ^ y.(int8)
		case int16:
			return x.(int16) ^ y.(int16)
		case int32:
			return x.(int32) ^ y.(int32)
		case int64:
			return x.(int64) ^ y.(int64)
		case uint:
			return x.(uint) ^ y.(uint)
		case uint8:
			return x.(uint8) ^ y.(uint8)
		case uint16:
			return x.(uint16) ^ y.(uint16)
		case uint32:
			return x.(uint32) ^ y.(uint32)
		case uint64:
			return x.(uint64) ^ y.(uint64)
		case uintptr:
			return x.(uintptr) ^ y.(uintptr)
		}

	case token.AND_NOT:
		switch x.(type) {
		case int:
			return x.(int) &^ y.(int)
		case int8:
			return x.(int8) &^ y.(int8)
		case int16:
			return x.(int16) &^ y.(int16)
		case int32:
			return x.(int32) &^ y.(int32)
		case int64:
			return x.(int64) &^ y.(int64)
		case uint:
			return x.(uint) &^ y.(uint)
		case uint8:
			return x.(uint8) &^ y.(uint8)
		case uint16:
			return x.(uint16) &^ y.(uint16)
		case uint32:
			return x.(uint32) &^ y.(uint32)
		case uint64:
			return x.(uint64) &^ y.(uint64)
		case uintptr:
			return x.(uintptr) &^ y.(uintptr)
		}

	case token.SHL:
		u, ok := asUnsigned(y)
		if !ok {
			panic("negative shift amount")
		}
		y := asUint64(u)
		switch x.(type) {
		case int:
			return x.(int) << y
		case int8:
			return x.(int8) << y
		case int16:
			return x.(int16) << y
		case int32:
			return x.(int32) << y
		case int64:
			return x.(int64) << y
		case uint:
			return x.(uint) << y
		case uint8:
			return x.(uint8) << y
		case uint16:
			return x.(uint16) << y
		case uint32:
			return x.(uint32) << y
		case uint64:
			return x.(uint64) << y
		case uintptr:
			return x.(uintptr) << y
		}

	case token.SHR:
		u, ok := asUnsigned(y)
		if !ok {
			panic("negative shift amount")
		}
		y := asUint64(u)
		switch x.(type) {
		case int:
			return x.(int) >> y
		case int8:
			return x.(int8) >> y
		case int16:
			return x.(int16) >> y
		case int32:
			return x.(int32) >> y
		case int64:
			return x.(int64) >> y
		case uint:
			return x.(uint) >> y
		case uint8:
			return x.(uint8) >> y
		case uint16:
			return x.(uint16) >> y
		case uint32:
			return x.(uint32) >> y
		case uint64:
			return x.(uint64) >> y
		case uintptr:
			return x.(uintptr) >> y
		}

	case token.LSS:
		switch x.(type) {
		case int:
			return x.(int) < y.(int)
		case int8:
			return x.(int8) < y.(int8)
		case int16:
			return x.(int16) < y.(int16)
		case int32:
			return x.(int32) < y.(int32)
		case int64:
			return x.(int64) < y.(int64)
		case uint:
			return x.(uint) < y.(uint)
		case uint8:
			return x.(uint8) < y.(uint8)
		case uint16:
			return x.(uint16) < y.(uint16)
		case uint32:
			return x.(uint32) < y.(uint32)
		case uint64:
			return x.(uint64) < y.(uint64)
		case uintptr:
			return x.(uintptr) < y.(uintptr)
		case float32:
			return x.(float32) < y.(float32)
		case float64:
			return x.(float64) < y.(float64)
		case string:
			return x.(string) < y.(string)
		}

	case token.LEQ:
		switch x.(type) {
		case int:
			return x.(int) <= y.(int)
		case int8:
			return x.(int8) <= y.(int8)
		case int16:
			return x.(int16) <= y.(int16)
		case int32:
			return x.(int32) <= y.(int32)
		case int64:
			return x.(int64) <= y.(int64)
		case uint:
			return x.(uint) <= y.(uint)
		case uint8:
			return x.(uint8) <= y.(uint8)
		case uint16:
			return x.(uint16) <= y.(uint16)
		case uint32:
			return x.(uint32) <= y.(uint32)
		case uint64:
			return x.(uint64) <= y.(uint64)
		case uintptr:
			return x.(uintptr) <= y.(uintptr)
		case float32:
			return x.(float32) <= y.(float32)
		case float64:
			return x.(float64) <= y.(float64)
		case string:
			return x.(string) <= y.(string)
		}

	case token.EQL, token.NEQ:
		panic(engineErr("binopConcrete: equality is handled by machine.binop"))

	case token.GTR:
		switch x.(type) {
		case int:
			return x.(int) > y.(int)
		case int8:
			return x.(int8) > y.(int8)
		case int16:
			return x.(int16) > y.(int16)
		case int32:
			return x.(int32) > y.(int32)
		case int64:
			return x.(int64) > y.(int64)
		case uint:
			return x.(uint) > y.(uint)
		case uint8:
			return x.(uint8) > y.(uint8)
		case uint16:
			return x.(uint16) > y.(uint16)
		case uint32:
			return x.(uint32) > y.(uint32)
		case uint64:
			return x.(uint64) > y.(uint64)
		case uintptr:
			return x.(uintptr) > y.(uintptr)
		case float32:
			return x.(float32) > y.(float32)
		case float64:
			return x.(float64) > y.(float64)
		case string:
			return x.(string) > y.(string)
		}

	case token.GEQ:
		switch x.(type) {
		case int:
			return x.(int) >= y.(int)
		case int8:
			return x.(int8) >= y.(int8)
		case int16:
			return x.(int16) >= y.(int16)
		case int32:
			return x.(int32) >= y.(int32)
		case int64:
			return x.(int64) >= y.(int64)
		case uint:
			return x.(uint) >= y.(uint)
		case uint8:
			return x.(uint8) >= y.(uint8)
		case uint16:
			return x.(uint16) >= y.(uint16)
		case uint32:
			return x.(uint32) >= y.(uint32)
		case uint64:
			return x.(uint64) >= y.(uint64)
		case uintptr:
			return x.(uintptr) >= y.(uintptr)
		case float32:
			return x.(float32) >= y.(float32)
		case float64:
			return x.(float64) >= y.(float64)
		case string:
			return x.(string) >= y.(string)
		}
	}
	panic(fmt.Sprintf("invalid binary op: %T %s %T", x, op, y))
}

// widen widens a basic typed value x to the widest type of its
// category, one of:
//
//	bool, int64, uint64, float64, complex128, string.
//
// This is inefficient but reduces the size of the cross-product of
// cases we have to consider.
func widen(x value) value {
	switch y := x.(type) {
	case bool, int64, uint64, float64, complex128, string, unsafe.Pointer:
		return x
	case int:
		return int64(y)
	case int8:
		return int64(y)
	case int16:
		return int64(y)
	case int32:
		return int64(y)
	case uint:
		return uint64(y)
	case uint8:
		return uint64(y)
	case uint16:
		return uint64(y)
	case uint32:
		return uint64(y)
	case uintptr:
		return uint64(y)
	case float32:
		return float64(y)
	case complex64:
		return complex128(y)
	}
	panic(fmt.Sprintf("cannot widen %T", x))
}

// conv converts the value x of type t_src to type t_dst and returns
// the result.
// Possible cases are described with the ssa.Convert operator.
func convConcrete(t_dst, t_src types.Type, x value) value {
	ut_src := t_src.Underlying()
	ut_dst := t_dst.Underlying()

	// Destination type is not an "untyped" type.
	if b, ok := ut_dst.(*types.Basic); ok && b.Info()&types.IsUntyped != 0 {
		panic("oops: conversion to 'untyped' type: " + b.String())
	}

	// Nor is it an interface type.
	if _, ok := ut_dst.(*types.Interface); ok {
		if _, ok := ut_src.(*types.Interface); ok {
			panic("oops: Convert should be ChangeInterface")
		} else {
			panic("oops: Convert should be MakeInterface")
		}
	}

	// Remaining conversions:
	//    + untyped string/number/bool constant to a specific
	//      representation.
	//    + conversions between non-complex numeric types.
	//    + conversions between complex numeric types.
	//    + integer/[]byte/[]rune -> string.
	//    + string -> []byte/[]rune.
	//
	// All are treated the same: first we extract the value to the
	// widest representation (int64, uint64, float64, complex128,
	// or string), then we convert it to the desired type.

	switch ut_src := ut_src.(type) {
	case *types.Pointer:
		switch ut_dst := ut_dst.(type) {
		case *types.Basic:
			// *value to unsafe.Pointer?
			if ut_dst.Kind() == types.UnsafePointer {
				return unsafe.Pointer(x.(*value))
			}
		}

	case *types.Slice:
		// []byte or []rune -> string
		switch ut_src.Elem().Underlying().(*types.Basic).Kind() {
		case types.Byte:
			x := x.([]value)
			b := make([]byte, 0, len(x))
			for i := range x {
				b = append(b, x[i].(byte))
			}
			return string(b)

		case types.Rune:
			x := x.([]value)
			r := make([]rune, 0, len(x))
			for i := range x {
				r = append(r, x[i].(rune))
			}
			return string(r)
		}

	case *types.Basic:
		x = widen(x)

		// integer -> string?
		if ut_src.Info()&types.IsInteger != 0 {
			if ut_dst, ok := ut_dst.(*types.Basic); ok && ut_dst.Kind() == types.String {
				return fmt.Sprintf("%c", x)
			}
		}

		// string -> []rune, []byte or string?
		if s, ok := x.(string); ok {
			switch ut_dst := ut_dst.(type) {
			case *types.Slice:
				var res []value
				switch ut_dst.Elem().Underlying().(*types.Basic).Kind() {
				case types.Rune:
					for _, r := range []rune(s) {
						res = append(res, r)
					}
					return res
				case types.Byte:
					for _, b := range []byte(s) {
						res = append(res, b)
					}
					return res
				}
			case *types.Basic:
				if ut_dst.Kind() == types.String {
					return x.(string)
				}
			}
			break // fail: no other conversions for string
		}

		// unsafe.Pointer -> *value
		if ut_src.Kind() == types.UnsafePointer {
			// TODO(adonovan): this is wrong and cannot
			// really be fixed with the current design.
			//
			// return (*value)(x.(unsafe.Pointer))
			// creates a new pointer of a different
			// type but the underlying interface value
			// knows its "true" type and so cannot be
			// meaningfully used through the new pointer.
			//
			// To make this work, the interpreter needs to
			// simulate the memory layout of a real
			// compiled implementation.
			//
			// To at least preserve type-safety, we'll
			// just return the zero value of the
			// destination type.
			return zero(t_dst)
		}

		// Conversions between complex numeric types?
		if ut_src.Info()&types.IsComplex != 0 {
			switch ut_dst.(*types.Basic).Kind() {
			case types.Complex64:
				return complex64(x.(complex128))
			case types.Complex128:
				return x.(complex128)
			}
			break // fail: no other conversions for complex
		}

		// Conversions between non-complex numeric types?
		if ut_src.Info()&types.IsNumeric != 0 {
			kind := ut_dst.(*types.Basic).Kind()
			switch x := x.(type) {
			case int64: // signed integer -> numeric?
				switch kind {
				case types.Int:
					return int(x)
				case types.Int8:
					return int8(x)
				case types.Int16:
					return int16(x)
				case types.Int32:
					return int32(x)
				case types.Int64:
					return int64(x)
				case types.Uint:
					return uint(x)
				case types.Uint8:
					return uint8(x)
				case types.Uint16:
					return uint16(x)
				case types.Uint32:
					return uint32(x)
				case types.Uint64:
					return uint64(x)
				case types.Uintptr:
					return uintptr(x)
				case types.Float32:
					return float32(x)
				case types.Float64:
					return float64(x)
				}

			case uint64: // unsigned integer -> numeric?
				switch kind {
				case types.Int:
					return int(x)
				case types.Int8:
					return int8(x)
				case types.Int16:
					return int16(x)
				case types.Int32:
					return int32(x)
				case types.Int64:
					return int64(x)
				case types.Uint:
					return uint(x)
				case types.Uint8:
					return uint8(x)
				case types.Uint16:
					return uint16(x)
				case types.Uint32:
					return uint32(x)
				case types.Uint64:
					return uint64(x)
				case types.Uintptr:
					return uintptr(x)
				case types.Float32:
					return float32(x)
				case types.Float64:
					return float64(x)
				}

			case float64: // floating point -> numeric?
				switch kind {
				case types.Int:
					return int(x)
				case types.Int8:
					return int8(x)
				case types.Int16:
					return int16(x)
				case types.Int32:
					return int32(x)
				case types.Int64:
					return int64(x)
				case types.Uint:
					return uint(x)
				case types.Uint8:
					return uint8(x)
				case types.Uint16:
					return uint16(x)
				case types.Uint32:
					return uint32(x)
				case types.Uint64:
					return uint64(x)
				case types.Uintptr:
					return uintptr(x)
				case types.Float32:
					return float32(x)
				case types.Float64:
					return float64(x)
				}
			}
		}
	}

	panic(fmt.Sprintf("unsupported conversion: %s  -> %s, dynamic type %T", t_src, t_dst, x))
}

// sliceToArrayPointer converts the value x of type slice to type t_dst
// a pointer to array and returns the result.
func sliceToArrayPointer(t_dst, t_src types.Type, x value) value {
	if _, ok := t_src.Underlying().(*types.Slice); ok {
		if ptr, ok := t_dst.Underlying().(*types.Pointer); ok {
			if arr, ok := ptr.Elem().Underlying().(*types.Array); ok {
				x := x.([]value)
				if arr.Len() > int64(len(x)) {
					panic("array length is greater than slice length")
				}
				if x == nil {
					return zero(t_dst)
				}
				v := value(array(x[:arr.Len()]))
				return &v
			}
		}
	}

	panic(fmt.Sprintf("unsupported conversion: %s  -> %s, dynamic type %T", t_src, t_dst, x))
}

// checkInterface checks that the method set of x implements the
// interface itype.
// On success it returns "", on failure, an error message.
func checkInterface(itype *types.Interface, x iface) string {
	if meth, _ := types.MissingMethod(x.t, itype, true); meth != nil {
		return fmt.Sprintf("interface conversion: %v is not %v: missing method %s",
			x.t, itype, meth.Name())
	}
	return "" // ok
}

// copied from $GOROOT/src/runtime/minmax.go

type floaty interface{ ~float32 | ~float64 }

func fmin[F floaty](x, y F) F {
	if y != y || y < x {
		return y
	}
	if x != x || x < y || x != 0 {
		return x
	}
	// x and y are both ±0
	// if either is -0, return -0; else return +0
	return forbits(x, y)
}

func fmax[F floaty](x, y F) F {
	if y != y || y > x {
		return y
	}
	if x != x || x > y || x != 0 {
		return x
	}
	// x and y are both ±0
	// if both are -0, return -0; else return +0
	return fandbits(x, y)
}

func forbits[F floaty](x, y F) F {
	switch unsafe.Sizeof(x) {
	case 4:
		*(*uint32)(unsafe.Pointer(&x)) |= *(*uint32)(unsafe.Pointer(&y))
	case 8:
		*(*uint64)(unsafe.Pointer(&x)) |= *(*uint64)(unsafe.Pointer(&y))
	}
	return x
}

func fandbits[F floaty](x, y F) F {
	switch unsafe.Sizeof(x) {
	case 4:
		*(*uint32)(unsafe.Pointer(&x)) &= *(*uint32)(unsafe.Pointer(&y))
	case 8:
		*(*uint64)(unsafe.Pointer(&x)) &= *(*uint64)(unsafe.Pointer(&y))
	}
	return x
}
