package gosym

import (
	"fmt"
	"go/token"
	"go/types"
	"math"

	"golang.org/x/tools/go/ssa"
)

// concInt returns a concrete int64, forking over the feasible values of a
// symbolic one.
func (m *machine) concInt(v value, why string) int64 {
	if sv, ok := v.(*symv); ok {
		return m.concretize(sv, why)
	}
	return asInt64(v)
}

func isIntKind(k types.BasicKind) bool {
	switch k {
	case types.Int, types.Int8, types.Int16, types.Int32, types.Int64,
		types.Uint, types.Uint8, types.Uint16, types.Uint32, types.Uint64, types.Uintptr:
		return true
	}
	return false
}

func isFloatKind(k types.BasicKind) bool { return k == types.Float32 || k == types.Float64 }

func isZeroInt(v value) bool {
	switch v.(type) {
	case *symv:
		return false
	case uint, uint8, uint16, uint32, uint64, uintptr:
		return asUint64(v) == 0
	}
	return asInt64(v) == 0
}

func isConcreteInt(v value) bool {
	switch v.(type) {
	case int, int8, int16, int32, int64, uint, uint8, uint16, uint32, uint64, uintptr:
		return true
	}
	return false
}

func (m *machine) eqnil(t types.Type, x, y value) value {
	switch t.Underlying().(type) {
	case *types.Map:
		return (x.(*mapV) != nil) == (y.(*mapV) != nil)
	case *types.Slice:
		// opaque byte slices (json model text, document streams) are never nil
		nonNil := func(v value) bool {
			switch v := v.(type) {
			case []value:
				return v != nil
			case *symBytes, *docBytes:
				return true
			}
			panic(engineErr(fmt.Sprintf("nil comparison of an unexpected slice representation %T", v)))
		}
		return nonNil(x) == nonNil(y)
	case *types.Signature:
		return isNilFunc(x) == isNilFunc(y)
	}
	return mkBoolV(m.eqTerm(t, x, y))
}

func isNilFunc(x value) bool {
	switch x := x.(type) {
	case *ssa.Function:
		return x == nil
	case *closure:
		return x == nil
	case *nativeFn:
		return x == nil
	case *ssa.Builtin:
		return x == nil
	}
	panic(engineErr(fmt.Sprintf("isNilFunc: %T", x)))
}

func (m *machine) binop(op token.Token, t types.Type, x, y value) value {
	switch op {
	case token.EQL:
		return m.eqnil(t, x, y)
	case token.NEQ:
		r := m.eqnil(t, x, y)
		if b, ok := r.(bool); ok {
			return !b
		}
		return mkBoolV(tNot(r.(*symv).t))
	}
	sx, xs := x.(*symv)
	sy, ys := y.(*symv)
	if (xs || ys) && (isConcScalar(x) || tblOf(x) != nil) && (isConcScalar(y) || tblOf(y) != nil) {
		if r, ok := m.liftBinop(op, t, x, y); ok {
			return r
		}
	}
	if !xs && !ys {
		if (op == token.QUO || op == token.REM) && isConcreteInt(y) && isZeroInt(y) {
			panic(m.rtPanic("integer divide by zero"))
		}
		if (op == token.SHL || op == token.SHR) && isConcreteInt(y) {
			if _, nonneg := asUnsigned(y); !nonneg {
				panic(m.rtPanic("negative shift amount"))
			}
		}
		return binopConcrete(op, t, x, y)
	}
	var srt smtSort
	if xs {
		srt = sx.s
	} else {
		srt = sy.s
	}
	switch srt {
	case sStr:
		return m.binopStr(op, x, y)
	case sInt:
		return m.binopInt(op, t, x, y)
	case sReal:
		return m.binopReal(op, t, x, y)
	case sBool:
		xt, yt := termOf(x), termOf(y)
		switch op {
		case token.AND, token.LAND:
			return mkBoolV(tAnd(xt, yt))
		case token.OR, token.LOR:
			return mkBoolV(tOr(xt, yt))
		}
	}
	panic(engineErr(fmt.Sprintf("unsupported symbolic binop %s on %v", op, srt)))
}

func strLenBounds(v value) (int64, int64) {
	switch v := v.(type) {
	case string:
		return int64(len(v)), int64(len(v))
	case *symv:
		return v.lo, v.hi
	}
	return 0, ivMax
}

func (m *machine) binopStr(op token.Token, x, y value) value {
	if xs, ok := x.(string); ok {
		if ys, ok := y.(string); ok {
			return binopConcrete(op, types.Typ[types.String], xs, ys)
		}
	}
	if (isConcScalar(x) || tblOf(x) != nil) && (isConcScalar(y) || tblOf(y) != nil) {
		if r, ok := m.liftBinop(op, types.Typ[types.String], x, y); ok {
			return r
		}
	}
	xt, yt := termOf(x), termOf(y)
	switch op {
	case token.ADD:
		if s, ok := x.(string); ok && s == "" {
			return y
		}
		if s, ok := y.(string); ok && s == "" {
			return x
		}
		r := mkStr("(str.++ " + xt + " " + yt + ")")
		xl, xh := strLenBounds(x)
		yl, yh := strLenBounds(y)
		r.lo, r.hi = satAdd(xl, yl), satAdd(xh, yh)
		return r
	case token.LSS:
		return mkBoolV("(str.< " + xt + " " + yt + ")")
	case token.LEQ:
		return mkBoolV("(str.<= " + xt + " " + yt + ")")
	case token.GTR:
		return mkBoolV("(str.< " + yt + " " + xt + ")")
	case token.GEQ:
		return mkBoolV("(str.<= " + yt + " " + xt + ")")
	}
	panic(engineErr("unsupported string op " + op.String()))
}

func tquo(x, y string) string {
	return "(ite (>= " + x + " 0) (ite (> " + y + " 0) (div " + x + " " + y + ") (- (div " + x + " (- " + y + ")))) (ite (> " + y + " 0) (- (div (- " + x + ") " + y + ")) (div (- " + x + ") (- " + y + "))))"
}

func (m *machine) binopInt(op token.Token, t types.Type, x, y value) value {
	kind := basicKind(t)
	if sx, ok := x.(*symv); ok && kind == types.Invalid {
		kind = sx.kind
	}
	xt, yt := termOf(x), termOf(y)
	xl, xh := ivOf(x)
	yl, yh := ivOf(y)
	switch op {
	case token.LSS:
		if xh < yl {
			return true
		}
		if xl >= yh && xl > ivMin && yh < ivMax {
			return false
		}
		return mkBoolV("(< " + xt + " " + yt + ")")
	case token.LEQ:
		if xh <= yl && xh < ivMax && yl > ivMin {
			return true
		}
		if xl > yh {
			return false
		}
		return mkBoolV("(<= " + xt + " " + yt + ")")
	case token.GTR:
		if xl > yh {
			return true
		}
		if xh <= yl && xh < ivMax && yl > ivMin {
			return false
		}
		return mkBoolV("(> " + xt + " " + yt + ")")
	case token.GEQ:
		if xl >= yh && xl > ivMin && yh < ivMax {
			return true
		}
		if xh < yl {
			return false
		}
		return mkBoolV("(>= " + xt + " " + yt + ")")
	}
	var r *symv
	switch op {
	case token.ADD:
		r = mkInt("(+ "+xt+" "+yt+")", kind, satAdd(xl, yl), satAdd(xh, yh))
	case token.SUB:
		r = mkInt("(- "+xt+" "+yt+")", kind, satAdd(xl, -yh), satAdd(xh, -yl))
	case token.MUL:
		a, b, c, d := satMul(xl, yl), satMul(xl, yh), satMul(xh, yl), satMul(xh, yh)
		r = mkInt("(* "+xt+" "+yt+")", kind, min64(a, b, c, d), max64(a, b, c, d))
	case token.QUO, token.REM:
		if yl <= 0 && yh >= 0 {
			if m.branch("(= " + yt + " 0)") {
				panic(m.rtPanic("integer divide by zero"))
			}
		}
		nonneg := xl >= 0 && yl > 0
		var q string
		if nonneg {
			q = "(div " + xt + " " + yt + ")"
		} else {
			q = tquo(xt, yt)
		}
		if op == token.QUO {
			lo, hi := int64(ivMin), int64(ivMax)
			if nonneg {
				lo, hi = 0, xh
				if yl > 0 && xh < ivMax {
					hi = xh / yl
				}
				if yh < ivMax && yh > 0 {
					lo = xl / yh
				}
			} else if xl > ivMin && xh < ivMax {
				ab := max64(-xl, xh)
				lo, hi = -ab, ab
			}
			r = mkInt(q, kind, lo, hi)
		} else {
			var term string
			if nonneg {
				term = "(mod " + xt + " " + yt + ")"
			} else {
				term = "(- " + xt + " (* " + yt + " " + q + "))"
			}
			lo, hi := int64(ivMin), int64(ivMax)
			if yh < ivMax && yl > ivMin {
				ab := max64(-yl, yh) - 1
				lo, hi = -ab, ab
				if xl >= 0 {
					lo = 0
					if xh < hi {
						hi = xh
					}
				}
			}
			r = mkInt(term, kind, lo, hi)
		}
	case token.SHL, token.SHR:
		if !isConcreteInt(y) {
			panic(engineErr("shift by symbolic amount is not supported"))
		}
		n := asInt64(y)
		if n < 0 || n > 62 {
			panic(engineErr("shift amount out of supported range"))
		}
		p := smtInt(int64(1) << uint(n))
		if op == token.SHL {
			r = mkInt("(* "+xt+" "+p+")", kind, satMul(xl, int64(1)<<uint(n)), satMul(xh, int64(1)<<uint(n)))
		} else {
			// arithmetic shift right = floor division
			lo, hi := int64(ivMin), int64(ivMax)
			if xl > ivMin {
				lo = xl >> uint(n)
			}
			if xh < ivMax {
				hi = xh >> uint(n)
			}
			r = mkInt("(div "+xt+" "+p+")", kind, lo, hi)
		}
	case token.AND:
		// x & (2^k-1) with non-negative x
		if isConcreteInt(y) && xl >= 0 {
			mask := asInt64(y)
			if mask >= 0 && (mask+1)&mask == 0 {
				r = mkInt("(mod "+xt+" "+smtInt(mask+1)+")", kind, 0, mask)
			}
		} else if isConcreteInt(x) && yl >= 0 {
			mask := asInt64(x)
			if mask >= 0 && (mask+1)&mask == 0 {
				r = mkInt("(mod "+yt+" "+smtInt(mask+1)+")", kind, 0, mask)
			}
		}
		if r == nil {
			panic(engineErr("unsupported symbolic bitwise and"))
		}
	default:
		panic(engineErr("unsupported symbolic integer op " + op.String()))
	}
	return m.noWrap(r, kind, op.String())
}

// noWrap discharges the obligation that a mathematical integer result lies
// in the range of its Go type (wrap-around is excluded by proof, not assumed).
func (m *machine) noWrap(r *symv, kind types.BasicKind, what string) value {
	klo, khi, wide := kindRange(kind)
	inLo := r.lo >= klo && (!wide || r.lo > ivMin || klo == 0 && r.lo >= 0)
	inHi := r.hi <= khi && (!wide || r.hi < ivMax)
	if wide && klo != 0 {
		inLo = r.lo > ivMin
	}
	if inLo && inHi {
		return r
	}
	if m.replaying() {
		return r
	}
	los, his := kindRangeTerms(kind)
	out := "(or (< " + r.t + " " + los + ") (> " + r.t + " " + his + "))"
	switch m.sol.CheckWith(out) {
	case "unsat":
		// tighten the interval to the type's range (proved)
		if r.lo < klo {
			r.lo = klo
		}
		if !wide && r.hi > khi {
			r.hi = khi
		}
	case "sat":
		m.inconclusive("INCONCLUSIVE overflow: " + what + " on " + kindName(kind) + " may wrap" + m.where())
	default:
		m.inconclusive("INCONCLUSIVE solver unknown on no-wrap obligation" + m.where())
	}
	return r
}

func kindName(k types.BasicKind) string { return types.Typ[k].Name() }

func (m *machine) binopReal(op token.Token, t types.Type, x, y value) value {
	xt, yt := termOf(x), termOf(y)
	switch op {
	case token.LSS:
		return mkBoolV("(< " + xt + " " + yt + ")")
	case token.LEQ:
		return mkBoolV("(<= " + xt + " " + yt + ")")
	case token.GTR:
		return mkBoolV("(> " + xt + " " + yt + ")")
	case token.GEQ:
		return mkBoolV("(>= " + xt + " " + yt + ")")
	}
	kind := basicKind(t)
	if m.cfg.Params["real_arith"] == 0 {
		m.inconclusive("INCONCLUSIVE fp-arith: symbolic floating-point " + op.String() + " (rounding not modelled)" + m.where())
	}
	switch op {
	case token.ADD:
		return mkReal("(+ "+xt+" "+yt+")", kind)
	case token.SUB:
		return mkReal("(- "+xt+" "+yt+")", kind)
	case token.MUL:
		return mkReal("(* "+xt+" "+yt+")", kind)
	case token.QUO:
		return mkReal("(/ "+xt+" "+yt+")", kind)
	}
	panic(engineErr("unsupported symbolic float op " + op.String()))
}

func (m *machine) unop(fr *frame, instr *ssa.UnOp, x value) value {
	switch instr.Op {
	case token.ARROW:
		v, ok := m.chanRecv(x, instr.X.Type().Underlying().(*types.Chan).Elem())
		if instr.CommaOk {
			return tuple{v, ok}
		}
		return v
	case token.MUL:
		return load(mustDeref(instr.X.Type()), m.ptr(x, "load"))
	case token.NOT:
		if b, ok := x.(bool); ok {
			return !b
		}
		return mkBoolV(tNot(x.(*symv).t))
	case token.SUB:
		if sv, ok := x.(*symv); ok {
			if sv.s == sReal {
				return mkReal("(- "+sv.t+")", sv.kind)
			}
			kind := basicKind(instr.Type())
			return m.noWrap(mkInt("(- "+sv.t+")", kind, -sv.hi, -sv.lo), kind, "negation")
		}
	case token.XOR:
		if sv, ok := x.(*symv); ok {
			kind := basicKind(instr.Type())
			if isUnsignedKind(kind) {
				panic(engineErr("bitwise complement of symbolic unsigned"))
			}
			return mkInt("(- (- "+sv.t+") 1)", kind, -sv.hi-1, -sv.lo-1)
		}
	}
	return unopConcrete(instr, x)
}

func unopConcrete(instr *ssa.UnOp, x value) value {
	switch instr.Op {
	case token.SUB:
		switch x := x.(type) {
		case int:
			return -x
		case int8:
			return -x
		case int16:
			return -x
		case int32:
			return -x
		case int64:
			return -x
		case uint:
			return -x
		case uint8:
			return -x
		case uint16:
			return -x
		case uint32:
			return -x
		case uint64:
			return -x
		case uintptr:
			return -x
		case float32:
			return -x
		case float64:
			return -x
		case complex64:
			return -x
		case complex128:
			return -x
		}
	case token.XOR:
		switch x := x.(type) {
		case int:
			return ^x
		case int8:
			return ^x
		case int16:
			return ^x
		case int32:
			return ^x
		case int64:
			return ^x
		case uint:
			return ^x
		case uint8:
			return ^x
		case uint16:
			return ^x
		case uint32:
			return ^x
		case uint64:
			return ^x
		case uintptr:
			return ^x
		}
	}
	panic(engineErr(fmt.Sprintf("invalid unary op %s %T", instr.Op, x)))
}

func (m *machine) typeAssert(instr *ssa.TypeAssert, itf iface) value {
	var v value
	err := ""
	if itf.t == nil {
		err = fmt.Sprintf("interface conversion: interface is nil, not %s", instr.AssertedType)
	} else if idst, ok := instr.AssertedType.Underlying().(*types.Interface); ok {
		v = itf
		err = checkInterface(idst, itf)
	} else if types.Identical(itf.t, instr.AssertedType) {
		v = itf.v
	} else {
		err = fmt.Sprintf("interface conversion: interface is %s, not %s", itf.t, instr.AssertedType)
	}
	if err != "" {
		if !instr.CommaOk {
			panic(targetPanic{iface{t: m.runtimeErrorString(), v: err}})
		}
		return tuple{zero(instr.AssertedType), false}
	}
	if instr.CommaOk {
		return tuple{v, true}
	}
	return v
}

// ---------------------------------------------------------------------------
// strings

func (m *machine) strLen(s value) value {
	switch s := s.(type) {
	case string:
		return len(s)
	case *symv:
		if s.tbl != nil {
			if r, _, ok := m.lift([]value{s}, func(c []value) (value, bool) { return len(c[0].(string)), true }); ok {
				return r
			}
		}
		return mkInt("(str.len "+s.t+")", types.Int, s.lo, s.hi)
	}
	panic(engineErr(fmt.Sprintf("strLen: %T", s)))
}

func (m *machine) strIndex(s value, idx value) value {
	if r, errT, ok := m.lift([]value{s, idx}, func(c []value) (value, bool) {
		str, i := c[0].(string), asInt64(c[1])
		if i < 0 || i >= int64(len(str)) {
			return nil, false
		}
		return str[i], true
	}); ok {
		if errT != "false" && m.branch(errT) {
			panic(m.rtPanic("index out of range (string)"))
		}
		return r
	}
	n := m.strLen(s)
	it := termOf(idx)
	in := "(and (>= " + it + " 0) (< " + it + " " + termOf(n) + "))"
	if !m.branch(in) {
		panic(m.rtPanic("index out of range (string)"))
	}
	return mkInt("(str.to_code (str.at "+termOf(s)+" "+it+"))", types.Uint8, 0, 127)
}

func (m *machine) slice(x, lo, hi, max value) value {
	switch xs := x.(type) {
	case string:
		if !isSym(lo) && !isSym(hi) {
			l, h := int64(0), int64(len(xs))
			if lo != nil {
				l = asInt64(lo)
			}
			if hi != nil {
				h = asInt64(hi)
			}
			if l < 0 || h < l || h > int64(len(xs)) {
				panic(m.rtPanic(fmt.Sprintf("slice bounds out of range [%d:%d] with length %d", l, h, len(xs))))
			}
			return xs[l:h]
		}
		return m.strSlice(x, lo, hi)
	case *symv:
		return m.strSlice(x, lo, hi)
	}
	var Len, Cap int
	var base []value
	switch x := x.(type) {
	case []value:
		Len, Cap, base = len(x), cap(x), x
	case *value:
		a := (*m.ptr(x, "slice of array pointer")).(array)
		Len, Cap, base = len(a), cap(a), []value(a)
		Cap = Len
	default:
		panic(engineErr(fmt.Sprintf("slice: unexpected X type: %T", x)))
	}
	l := int64(0)
	if lo != nil {
		l = m.concInt(lo, "slice low")
	}
	h := int64(Len)
	if hi != nil {
		h = m.concInt(hi, "slice high")
	}
	mx := int64(Cap)
	if max != nil {
		mx = m.concInt(max, "slice max")
	}
	if l < 0 || h < l || mx < h || mx > int64(Cap) {
		panic(m.rtPanic(fmt.Sprintf("slice bounds out of range [%d:%d:%d] with capacity %d", l, h, mx, Cap)))
	}
	if base == nil {
		return []value(nil)
	}
	return base[l:h:mx]
}

func (m *machine) strSlice(x, lo, hi value) value {
	if r, errT, ok := m.lift([]value{x, lo, hi}, func(c []value) (value, bool) {
		str := c[0].(string)
		l, h := int64(0), int64(len(str))
		if c[1] != nil {
			l = asInt64(c[1])
		}
		if c[2] != nil {
			h = asInt64(c[2])
		}
		if l < 0 || h < l || h > int64(len(str)) {
			return nil, false
		}
		return str[l:h], true
	}); ok {
		if errT != "false" && m.branch(errT) {
			panic(m.rtPanic("slice bounds out of range (string)"))
		}
		return r
	}
	n := m.strLen(x)
	var l value = 0
	if lo != nil {
		l = lo
	}
	var h value = n
	if hi != nil {
		h = hi
	}
	lt, ht, nt := termOf(l), termOf(h), termOf(n)
	ok := "(and (<= 0 " + lt + ") (<= " + lt + " " + ht + ") (<= " + ht + " " + nt + "))"
	if !m.branch(ok) {
		panic(m.rtPanic("slice bounds out of range (string)"))
	}
	r := mkStr("(str.substr " + termOf(x) + " " + lt + " (- " + ht + " " + lt + "))")
	_, xh := strLenBounds(x)
	r.lo, r.hi = 0, xh
	return r
}

func (m *machine) lookup(instr *ssa.Lookup, x, idx value) value {
	switch x := x.(type) {
	case *mapV:
		var v value
		ok := false
		if e := m.mapFind(x, idx); e != nil {
			v, ok = e.v, true
		}
		if !ok {
			v = zero(instr.X.Type().Underlying().(*types.Map).Elem())
		} else {
			v = copyVal(v)
		}
		if instr.CommaOk {
			return tuple{v, ok}
		}
		return v
	case string:
		if !isSym(idx) {
			return x[m.indexIn(idx, len(x), "string index")]
		}
		return m.strIndex(x, idx)
	case *symv:
		return m.strIndex(x, idx)
	}
	panic(engineErr(fmt.Sprintf("unexpected x type in Lookup: %T", x)))
}

// ---------------------------------------------------------------------------
// conversions

func (m *machine) conv(tDst, tSrc types.Type, x value) value {
	if _, ok := x.(*docBytes); ok {
		if b, ok := tDst.Underlying().(*types.Basic); ok && b.Kind() == types.String {
			return "<json documents>"
		}
		panic(engineErr("json document stream used as something other than a decoder input"))
	}
	if sb, ok := x.(*symBytes); ok {
		if b, ok := tDst.Underlying().(*types.Basic); ok && b.Kind() == types.String {
			return sb.str
		}
		panic(engineErr("symbolic byte slice (json model) used as something other than a string"))
	}
	sv, ok := x.(*symv)
	if !ok {
		// slices with symbolic bytes -> string
		if sl, ok := x.([]value); ok {
			anySym := false
			for _, e := range sl {
				if isSym(e) {
					anySym = true
				}
			}
			if anySym {
				if b, ok := tDst.Underlying().(*types.Basic); ok && b.Kind() == types.String {
					t := ""
					for _, e := range sl {
						var p string
						if es, ok := e.(*symv); ok {
							p = "(str.from_code " + es.t + ")"
						} else {
							p = smtStr(string(rune(asInt64(e))))
						}
						if t == "" {
							t = p
						} else {
							t = "(str.++ " + t + " " + p + ")"
						}
					}
					r := mkStr(t)
					r.lo, r.hi = int64(len(sl)), int64(len(sl))
					return r
				}
			}
		}
		if f, ok := x.(float64); ok {
			if dk := basicKind(tDst); isIntKind(dk) && (f != f || math.IsInf(f, 0)) {
				panic(engineErr("conversion of non-finite float to integer"))
			}
		}
		return convConcrete(tDst, tSrc, x)
	}
	dk := basicKind(tDst)
	if sv.tbl != nil {
		if _, isBasic := tDst.Underlying().(*types.Basic); isBasic {
			if r, _, ok := m.lift([]value{sv}, func(c []value) (value, bool) { return convConcrete(tDst, tSrc, c[0]), true }); ok {
				return r
			}
		}
	}
	switch sv.s {
	case sBool:
		return sv
	case sStr:
		switch ut := tDst.Underlying().(type) {
		case *types.Basic:
			if ut.Kind() == types.String {
				return sv
			}
		case *types.Slice:
			n := int(m.concretize(mkInt("(str.len "+sv.t+")", types.Int, sv.lo, sv.hi), "string length"))
			out := make([]value, n)
			ek := basicKind(ut.Elem())
			for i := range out {
				out[i] = mkInt("(str.to_code (str.at "+sv.t+" "+smtInt(int64(i))+"))", ek, 0, 127)
			}
			return out
		}
	case sInt:
		switch {
		case isIntKind(dk):
			klo, khi, wide := kindRange(dk)
			if sv.lo >= klo && sv.hi <= khi && (!wide || (sv.hi < ivMax && (klo == 0 || sv.lo > ivMin))) {
				return &symv{s: sInt, t: sv.t, kind: dk, lo: sv.lo, hi: sv.hi}
			}
			// general case: modular semantics of Go integer conversion
			los, his := kindRangeTerms(dk)
			in := "(and (>= " + sv.t + " " + los + ") (<= " + sv.t + " " + his + "))"
			if m.replaying() || m.sol.CheckWith(tNot(in)) == "unsat" {
				lo, hi := sv.lo, sv.hi
				if lo < klo {
					lo = klo
				}
				if !wide && hi > khi {
					hi = khi
				}
				return &symv{s: sInt, t: sv.t, kind: dk, lo: lo, hi: hi}
			}
			bits := int(m.sizes.Sizeof(types.Typ[dk])) * 8
			mod := new(bigInt).exp2(bits).String()
			if isUnsignedKind(dk) {
				return mkInt("(mod "+sv.t+" "+mod+")", dk, klo, khi)
			}
			half := new(bigInt).exp2(bits - 1).String()
			return mkInt("(- (mod (+ "+sv.t+" "+half+") "+mod+") "+half+")", dk, klo, khi)
		case isFloatKind(dk):
			return mkReal("(to_real "+sv.t+")", dk)
		case dk == types.String:
			r := mkStr("(str.from_code " + sv.t + ")")
			r.lo, r.hi = 1, 1
			return r
		}
	case sReal:
		switch {
		case isFloatKind(dk):
			return mkReal(sv.t, dk)
		case isIntKind(dk):
			t := "(ite (>= " + sv.t + " 0.0) (to_int " + sv.t + ") (- (to_int (- " + sv.t + "))))"
			lo, hi, _ := kindRange(dk)
			return mkInt(t, dk, lo, hi)
		}
	}
	panic(engineErr(fmt.Sprintf("unsupported symbolic conversion %s -> %s", tSrc, tDst)))
}

// ---------------------------------------------------------------------------
// builtins

var sizeClasses = []int64{0, 8, 16, 24, 32, 48, 64, 80, 96, 112, 128, 144, 160, 176, 192, 208, 224, 240, 256, 288, 320, 352, 384, 416, 448, 480, 512, 576, 640, 704, 768, 896, 1024, 1152, 1280, 1408, 1536, 1792, 2048, 2304, 2688, 3072, 3200, 3456, 4096, 4864, 5120, 5376, 6144, 6528, 6784, 6912, 8192, 9472, 9728, 10240, 10880, 12288, 13568, 14336, 16384, 18432, 19072, 20480, 21760, 24576, 27264, 28672, 32768}

func roundupsize(size int64, noscan bool) int64 {
	reqSize := size
	if reqSize <= 32768-8 {
		if !noscan && reqSize > 512 {
			reqSize += 8
		}
		for _, c := range sizeClasses {
			if c >= reqSize {
				return c - (reqSize - size)
			}
		}
	}
	reqSize += 8192 - 1
	return reqSize &^ (8192 - 1)
}

func hasPointers(t types.Type) bool {
	switch t := t.Underlying().(type) {
	case *types.Basic:
		return t.Kind() == types.String || t.Kind() == types.UnsafePointer
	case *types.Struct:
		for i := 0; i < t.NumFields(); i++ {
			if hasPointers(t.Field(i).Type()) {
				return true
			}
		}
		return false
	case *types.Array:
		return t.Len() > 0 && hasPointers(t.Elem())
	}
	return true
}

// growCap implements runtime.growslice's capacity rule (Go 1.20+).
func (m *machine) growCap(oldCap, newLen int, elem types.Type) int {
	newcap := oldCap
	doublecap := newcap + newcap
	if newLen > doublecap {
		newcap = newLen
	} else {
		const threshold = 256
		if oldCap < threshold {
			newcap = doublecap
		} else {
			for newcap < newLen {
				newcap += (newcap + 3*threshold) >> 2
			}
		}
	}
	es := m.sizes.Sizeof(elem)
	if es == 0 {
		return newcap
	}
	mem := roundupsize(int64(newcap)*es, !hasPointers(elem))
	return int(mem / es)
}

func (m *machine) doAppend(fn *ssa.Builtin, args []value) value {
	if len(args) == 1 {
		return args[0]
	}
	dst := args[0].([]value)
	var src []value
	switch s := args[1].(type) {
	case string:
		for i := 0; i < len(s); i++ {
			src = append(src, s[i])
		}
	case *symv:
		src = m.conv(types.NewSlice(types.Typ[types.Uint8]), types.Typ[types.String], s).([]value)
	case []value:
		src = s
	}
	if len(src) == 0 {
		return dst
	}
	elem := fn.Type().(*types.Signature).Params().At(0).Type().Underlying().(*types.Slice).Elem()
	n := len(dst) + len(src)
	if n <= cap(dst) {
		out := dst[:n]
		for i, e := range src {
			out[len(dst)+i] = copyVal(e)
		}
		return out
	}
	nc := m.growCap(cap(dst), n, elem)
	out := make([]value, n, nc)
	for i := range dst {
		out[i] = dst[i]
	}
	for i, e := range src {
		out[len(dst)+i] = copyVal(e)
	}
	full := out[:nc]
	for i := n; i < nc; i++ {
		full[i] = zero(elem)
	}
	return out
}

func (m *machine) callBuiltin(caller *frame, callpos token.Pos, fn *ssa.Builtin, args []value) value {
	switch fn.Name() {
	case "append":
		return m.doAppend(fn, args)

	case "copy":
		src := args[1]
		switch s := src.(type) {
		case string, *symv:
			src = m.conv(types.NewSlice(types.Typ[types.Uint8]), types.Typ[types.String], s)
		}
		d, s := args[0].([]value), src.([]value)
		n := len(d)
		if len(s) < n {
			n = len(s)
		}
		tmp := make([]value, n)
		for i := 0; i < n; i++ {
			tmp[i] = copyVal(s[i])
		}
		copy(d, tmp)
		return n

	case "close":
		m.chanClose(args[0])
		return nil

	case "delete":
		m.mapDelete(args[0].(*mapV), args[1])
		return nil

	case "clear":
		switch x := args[0].(type) {
		case *mapV:
			if x != nil {
				for _, e := range x.entries {
					e.deleted = true
				}
				x.entries = nil
			}
		case []value:
			et := fn.Type().(*types.Signature).Params().At(0).Type().Underlying().(*types.Slice).Elem()
			for i := range x {
				x[i] = zero(et)
			}
		}
		return nil

	case "print", "println":
		return nil

	case "len":
		switch x := args[0].(type) {
		case string:
			return len(x)
		case *symv:
			return m.strLen(x)
		case array:
			return len(x)
		case *value:
			if x == nil {
				t := fn.Type().(*types.Signature).Params().At(0).Type()
				return int(mustDeref(t).Underlying().(*types.Array).Len())
			}
			return len((*x).(array))
		case []value:
			return len(x)
		case *symBytes:
			return m.strLen(x.str)
		case *mapV:
			return x.length()
		case *chanV:
			if x == nil {
				return 0
			}
			return len(x.buf)
		default:
			panic(engineErr(fmt.Sprintf("len: illegal operand: %T", x)))
		}

	case "cap":
		switch x := args[0].(type) {
		case array:
			return len(x)
		case *value:
			return len((*x).(array))
		case []value:
			return cap(x)
		case *chanV:
			if x == nil {
				return 0
			}
			return x.cap
		default:
			panic(engineErr(fmt.Sprintf("cap: illegal operand: %T", x)))
		}

	case "min", "max":
		x := args[0]
		t := fn.Type().(*types.Signature).Params().At(0).Type()
		for _, y := range args[1:] {
			var c value
			if fn.Name() == "min" {
				c = m.binop(token.LSS, t, y, x)
			} else {
				c = m.binop(token.GTR, t, y, x)
			}
			switch c := c.(type) {
			case bool:
				if c {
					x = y
				}
			case *symv:
				if m.branch(c.t) {
					x = y
				}
			}
		}
		return x

	case "panic":
		panic(targetPanic{args[0]})

	case "recover":
		return doRecover(caller)

	case "ssa:wrapnilchk":
		recv := args[0]
		if recv.(*value) == nil {
			panic(m.rtPanic(fmt.Sprintf("value method %v.%v called using nil pointer", args[1], args[2])))
		}
		return recv

	case "ssa:deferstack":
		return &caller.defers
	}
	panic(engineErr("unknown built-in: " + fn.Name()))
}
