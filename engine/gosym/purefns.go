package gosym

import (
	"strconv"
	"strings"
	"unicode"
)

// Pure standard-library functions over scalars: evaluated natively when every
// argument is concrete, lifted over decision tables when table-valued, and
// handed to the symbolic model (if any) otherwise.
var pureFns = map[string]func(c []value) value{
	"strings.HasPrefix":     func(c []value) value { return strings.HasPrefix(c[0].(string), c[1].(string)) },
	"strings.HasSuffix":     func(c []value) value { return strings.HasSuffix(c[0].(string), c[1].(string)) },
	"strings.Contains":      func(c []value) value { return strings.Contains(c[0].(string), c[1].(string)) },
	"strings.ContainsRune":  func(c []value) value { return strings.ContainsRune(c[0].(string), rune(asInt64(c[1]))) },
	"strings.ContainsAny":   func(c []value) value { return strings.ContainsAny(c[0].(string), c[1].(string)) },
	"strings.Index":         func(c []value) value { return strings.Index(c[0].(string), c[1].(string)) },
	"strings.IndexRune":     func(c []value) value { return strings.IndexRune(c[0].(string), rune(asInt64(c[1]))) },
	"strings.IndexByte":     func(c []value) value { return strings.IndexByte(c[0].(string), byte(asInt64(c[1]))) },
	"strings.IndexAny":      func(c []value) value { return strings.IndexAny(c[0].(string), c[1].(string)) },
	"strings.LastIndex":     func(c []value) value { return strings.LastIndex(c[0].(string), c[1].(string)) },
	"strings.LastIndexByte": func(c []value) value { return strings.LastIndexByte(c[0].(string), byte(asInt64(c[1]))) },
	"strings.TrimPrefix":    func(c []value) value { return strings.TrimPrefix(c[0].(string), c[1].(string)) },
	"strings.TrimSuffix":    func(c []value) value { return strings.TrimSuffix(c[0].(string), c[1].(string)) },
	"strings.TrimSpace":     func(c []value) value { return strings.TrimSpace(c[0].(string)) },
	"strings.Trim":          func(c []value) value { return strings.Trim(c[0].(string), c[1].(string)) },
	"strings.TrimLeft":      func(c []value) value { return strings.TrimLeft(c[0].(string), c[1].(string)) },
	"strings.TrimRight":     func(c []value) value { return strings.TrimRight(c[0].(string), c[1].(string)) },
	"strings.ToLower":       func(c []value) value { return strings.ToLower(c[0].(string)) },
	"strings.ToUpper":       func(c []value) value { return strings.ToUpper(c[0].(string)) },
	"strings.EqualFold":     func(c []value) value { return strings.EqualFold(c[0].(string), c[1].(string)) },
	"strings.Compare":       func(c []value) value { return strings.Compare(c[0].(string), c[1].(string)) },
	"strings.Count":         func(c []value) value { return strings.Count(c[0].(string), c[1].(string)) },
	"strings.Repeat":        func(c []value) value { return strings.Repeat(c[0].(string), int(asInt64(c[1]))) },
	"strings.ReplaceAll":    func(c []value) value { return strings.ReplaceAll(c[0].(string), c[1].(string), c[2].(string)) },
	"strings.Replace": func(c []value) value {
		return strings.Replace(c[0].(string), c[1].(string), c[2].(string), int(asInt64(c[3])))
	},
	"strings.Title":      func(c []value) value { return strings.Title(c[0].(string)) },
	"strconv.Itoa":       func(c []value) value { return strconv.Itoa(int(asInt64(c[0]))) },
	"strconv.Quote":      func(c []value) value { return strconv.Quote(c[0].(string)) },
	"strconv.FormatBool": func(c []value) value { return strconv.FormatBool(c[0].(bool)) },
	"strconv.FormatInt":  func(c []value) value { return strconv.FormatInt(asInt64(c[0]), int(asInt64(c[1]))) },
	"unicode.IsUpper":    func(c []value) value { return unicode.IsUpper(rune(asInt64(c[0]))) },
	"unicode.IsLower":    func(c []value) value { return unicode.IsLower(rune(asInt64(c[0]))) },
	"unicode.IsDigit":    func(c []value) value { return unicode.IsDigit(rune(asInt64(c[0]))) },
	"unicode.IsLetter":   func(c []value) value { return unicode.IsLetter(rune(asInt64(c[0]))) },
	"unicode.IsSpace":    func(c []value) value { return unicode.IsSpace(rune(asInt64(c[0]))) },
	"unicode.ToLower":    func(c []value) value { return unicode.ToLower(rune(asInt64(c[0]))) },
	"unicode.ToUpper":    func(c []value) value { return unicode.ToUpper(rune(asInt64(c[0]))) },
}

func init() {
	for name, f := range pureFns {
		name, f := name, f
		model := intrinsics[name] // symbolic model, may be nil
		intrinsics[name] = func(fr *frame, args []value) (value, bool) {
			allConc, liftable := true, true
			for _, a := range args {
				if !isConcScalar(a) {
					allConc = false
					if tblOf(a) == nil {
						liftable = false
					}
				}
			}
			if allConc {
				return f(args), true
			}
			if liftable {
				if r, _, ok := fr.m.lift(args, func(c []value) (value, bool) { return f(c), true }); ok {
					return r, true
				}
			}
			if model != nil {
				if v, ok := model(fr, args); ok {
					return v, true
				}
			}
			panic(engineErr(name + " on these symbolic arguments is not modelled"))
		}
	}
}
