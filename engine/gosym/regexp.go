package gosym

// regexp: patterns are compiled natively; the compiled object is an opaque
// value; methods are evaluated natively on concrete (or table-valued) strings.

import (
	"go/types"
	"regexp"
)

func ptrType(t types.Type) types.Type { return types.NewPointer(t) }

func reOf(v value) *regexp.Regexp {
	re, ok := v.(*regexp.Regexp)
	if !ok {
		panic(engineErr("regexp receiver is not an engine-compiled pattern"))
	}
	return re
}

func init() {
	intrinsics["regexp.MustCompile"] = func(fr *frame, a []value) (value, bool) {
		p, ok := a[0].(string)
		if !ok {
			panic(engineErr("regexp.MustCompile on a symbolic pattern"))
		}
		return regexp.MustCompile(p), true
	}
	intrinsics["regexp.Compile"] = func(fr *frame, a []value) (value, bool) {
		p, ok := a[0].(string)
		if !ok {
			panic(engineErr("regexp.Compile on a symbolic pattern"))
		}
		re, err := regexp.Compile(p)
		if err != nil {
			t := fr.m.namedType("errors", "errorString")
			var cell value = structure{err.Error()}
			return tuple{(*regexp.Regexp)(nil), iface{t: ptrType(t), v: &cell}}, true
		}
		return tuple{re, iface{}}, true
	}
	strMethod := func(name string, f func(re *regexp.Regexp, c []value) value) {
		intrinsics["(*regexp.Regexp)."+name] = func(fr *frame, a []value) (value, bool) {
			re := reOf(a[0])
			args := a[1:]
			allConc := true
			for _, x := range args {
				if !isConcScalar(x) {
					allConc = false
				}
			}
			if allConc {
				return f(re, args), true
			}
			if r, _, ok := fr.m.lift(args, func(c []value) (value, bool) { return f(re, c), true }); ok {
				return r, true
			}
			panic(engineErr("regexp method " + name + " on a symbolic string is not modelled"))
		}
	}
	strMethod("ReplaceAllString", func(re *regexp.Regexp, c []value) value {
		return re.ReplaceAllString(c[0].(string), c[1].(string))
	})
	strMethod("MatchString", func(re *regexp.Regexp, c []value) value { return re.MatchString(c[0].(string)) })
	strMethod("FindString", func(re *regexp.Regexp, c []value) value { return re.FindString(c[0].(string)) })
	intrinsics["(*regexp.Regexp).String"] = func(fr *frame, a []value) (value, bool) { return reOf(a[0]).String(), true }
	intrinsics["(*regexp.Regexp).FindStringSubmatch"] = func(fr *frame, a []value) (value, bool) {
		s, ok := a[1].(string)
		if !ok {
			panic(engineErr("FindStringSubmatch on a symbolic string"))
		}
		r := reOf(a[0]).FindStringSubmatch(s)
		if r == nil {
			return []value(nil), true
		}
		out := make([]value, len(r))
		for i := range r {
			out[i] = r[i]
		}
		return out, true
	}
}
