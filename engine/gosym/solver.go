package gosym

// One persistent SMT solver process (z3 -in), talked to in SMT-LIB2 with
// :print-success so that every command is acknowledged and any "(error"
// answer is seen at the command that caused it.

import (
	"bufio"
	"fmt"
	"io"
	"os/exec"
	"strings"
	"time"
)

type Solver struct {
	cmd     *exec.Cmd
	in      io.WriteCloser
	out     *bufio.Reader
	Calls   int           // check-sat calls
	Time    time.Duration // time spent in check-sat
	timeout int           // ms
	// script of the current context (for standalone re-checking)
	script []string
	marks  []int
	Errors []string
	name   string
}

func NewSolver(bin string, args []string, timeoutMs int) (*Solver, error) {
	cmd := exec.Command(bin, args...)
	in, err := cmd.StdinPipe()
	if err != nil {
		return nil, err
	}
	outp, err := cmd.StdoutPipe()
	if err != nil {
		return nil, err
	}
	cmd.Stderr = cmd.Stdout
	if err := cmd.Start(); err != nil {
		return nil, err
	}
	s := &Solver{cmd: cmd, in: in, out: bufio.NewReaderSize(outp, 1<<16), timeout: timeoutMs, name: bin}
	s.raw("(set-option :print-success true)")
	s.raw("(set-option :produce-models true)")
	if strings.Contains(bin, "z3") {
		s.raw(fmt.Sprintf("(set-option :timeout %d)", timeoutMs))
	}
	return s, nil
}

func (s *Solver) Close() {
	if s == nil || s.cmd == nil {
		return
	}
	s.in.Close()
	done := make(chan struct{})
	go func() { s.cmd.Wait(); close(done) }()
	select {
	case <-done:
	case <-time.After(2 * time.Second):
		s.cmd.Process.Kill()
	}
}

// readSexp reads one response: either an atom line or a balanced s-expression.
func (s *Solver) readSexp() string {
	var b strings.Builder
	depth := 0
	inStr := false
	started := false
	for {
		c, err := s.out.ReadByte()
		if err != nil {
			panic(engineErr("solver died: " + err.Error() + " after: " + b.String()))
		}
		if !started {
			if c == ' ' || c == '\n' || c == '\r' || c == '\t' {
				continue
			}
			started = true
		}
		if inStr {
			b.WriteByte(c)
			if c == '"' {
				inStr = false
			}
			continue
		}
		switch c {
		case '"':
			inStr = true
			b.WriteByte(c)
		case '(':
			depth++
			b.WriteByte(c)
		case ')':
			depth--
			b.WriteByte(c)
			if depth == 0 {
				return b.String()
			}
		case '\n':
			if depth == 0 {
				return strings.TrimSpace(b.String())
			}
			b.WriteByte(' ')
		default:
			b.WriteByte(c)
		}
	}
}

func (s *Solver) raw(cmd string) string {
	if _, err := io.WriteString(s.in, cmd+"\n"); err != nil {
		panic(engineErr("solver write: " + err.Error()))
	}
	r := s.readSexp()
	if strings.HasPrefix(r, "(error") {
		s.Errors = append(s.Errors, cmd+" => "+r)
	}
	return r
}

func (s *Solver) cmdLogged(c string) string {
	s.script = append(s.script, c)
	return s.raw(c)
}

func (s *Solver) Push() {
	s.marks = append(s.marks, len(s.script))
	s.raw("(push 1)")
}

func (s *Solver) Pop() {
	n := s.marks[len(s.marks)-1]
	s.marks = s.marks[:len(s.marks)-1]
	s.script = s.script[:n]
	s.raw("(pop 1)")
}

func (s *Solver) Depth() int { return len(s.marks) }

func (s *Solver) Declare(name string, srt smtSort) {
	s.cmdLogged(fmt.Sprintf("(declare-const %s %s)", name, srt))
}

func (s *Solver) DeclareFun(name string, sig string) {
	s.cmdLogged(fmt.Sprintf("(declare-fun %s %s)", name, sig))
}

func (s *Solver) Assert(t string) {
	s.cmdLogged("(assert " + t + ")")
}

// Check returns "sat", "unsat" or "unknown" (timeouts and errors are unknown).
func (s *Solver) Check() string {
	s.Calls++
	nerr := len(s.Errors)
	t0 := time.Now()
	r := s.raw("(check-sat)")
	s.Time += time.Since(t0)
	if len(s.Errors) > nerr {
		return "unknown"
	}
	switch r {
	case "sat", "unsat":
		return r
	}
	return "unknown"
}

// CheckWith decides pc ∧ extra without changing the context.
func (s *Solver) CheckWith(extra string) string {
	s.Push()
	nerr := len(s.Errors)
	s.Assert(extra)
	var r string
	if len(s.Errors) > nerr {
		r = "unknown"
	} else {
		r = s.Check()
	}
	s.Pop()
	return r
}

// Script returns a standalone SMT-LIB2 script deciding the current context
// plus extra.
func (s *Solver) Script(extra string) string {
	var b strings.Builder
	for _, l := range s.script {
		b.WriteString(l)
		b.WriteByte('\n')
	}
	if extra != "" {
		b.WriteString("(assert " + extra + ")\n")
	}
	b.WriteString("(check-sat)\n")
	return b.String()
}

// GetValues evaluates terms in the current model (after a sat answer).
func (s *Solver) GetValues(terms []string) ([]string, error) {
	if len(terms) == 0 {
		return nil, nil
	}
	res := make([]string, 0, len(terms))
	// one at a time keeps parsing trivial and robust
	for _, t := range terms {
		r := s.raw("(get-value (" + t + "))")
		if strings.HasPrefix(r, "(error") {
			return nil, fmt.Errorf("get-value %s: %s", t, r)
		}
		// r = ((term value))
		r = strings.TrimSpace(r)
		if len(r) < 4 {
			return nil, fmt.Errorf("get-value: short answer %q", r)
		}
		inner := strings.TrimSpace(r[1 : len(r)-1]) // (term value)
		inner = strings.TrimSpace(inner[1 : len(inner)-1])
		// split off the term: value is the last s-expression/atom
		val := lastSexp(inner)
		res = append(res, val)
	}
	return res, nil
}

func lastSexp(s string) string {
	s = strings.TrimSpace(s)
	if s == "" {
		return s
	}
	end := len(s)
	if s[end-1] == '"' {
		// string literal: scan back to the opening quote (doubling = escape)
		i := end - 2
		for i >= 0 {
			if s[i] == '"' {
				if i > 0 && s[i-1] == '"' {
					i -= 2
					continue
				}
				return s[i:]
			}
			i--
		}
		return s
	}
	if s[end-1] == ')' {
		depth := 0
		inStr := false
		for i := end - 1; i >= 0; i-- {
			c := s[i]
			if c == '"' {
				inStr = !inStr
				continue
			}
			if inStr {
				continue
			}
			if c == ')' {
				depth++
			} else if c == '(' {
				depth--
				if depth == 0 {
					return s[i:]
				}
			}
		}
		return s
	}
	i := strings.LastIndexAny(s, " \t\n")
	return s[i+1:]
}

// parse model values -------------------------------------------------------

func parseSmtInt(v string) (int64, bool) {
	v = strings.TrimSpace(v)
	neg := false
	if strings.HasPrefix(v, "(-") {
		neg = true
		v = strings.TrimSpace(v[2 : len(v)-1])
	}
	var n uint64
	if v == "" {
		return 0, false
	}
	for _, c := range v {
		if c < '0' || c > '9' {
			return 0, false
		}
		n = n*10 + uint64(c-'0')
	}
	if neg {
		return -int64(n), true
	}
	return int64(n), true
}

func parseSmtString(v string) (string, bool) {
	v = strings.TrimSpace(v)
	if len(v) < 2 || v[0] != '"' || v[len(v)-1] != '"' {
		return "", false
	}
	v = v[1 : len(v)-1]
	var b strings.Builder
	for i := 0; i < len(v); i++ {
		c := v[i]
		if c == '"' && i+1 < len(v) && v[i+1] == '"' {
			b.WriteByte('"')
			i++
			continue
		}
		if c == '\\' && i+1 < len(v) {
			// \u{X..}, \uXXXX, \xXX (old z3)
			if v[i+1] == 'u' && i+2 < len(v) && v[i+2] == '{' {
				j := strings.IndexByte(v[i:], '}')
				if j > 0 {
					var n int
					fmt.Sscanf(v[i+3:i+j], "%x", &n)
					b.WriteByte(byte(n))
					i += j
					continue
				}
			}
			if v[i+1] == 'u' && i+5 < len(v) {
				var n int
				if _, err := fmt.Sscanf(v[i+2:i+6], "%x", &n); err == nil {
					b.WriteByte(byte(n))
					i += 5
					continue
				}
			}
			if v[i+1] == 'x' && i+3 < len(v) {
				var n int
				if _, err := fmt.Sscanf(v[i+2:i+4], "%x", &n); err == nil {
					b.WriteByte(byte(n))
					i += 3
					continue
				}
			}
		}
		b.WriteByte(c)
	}
	return b.String(), true
}
