package gosym

// One persistent SMT solver process (z3 -in), talked to in SMT-LIB2 with
// :print-success so that every command is acknowledged and any "(error"
// answer is seen at the command that caused it.

import (
	"bufio"
	"fmt"
	"io"
	"os/exec"
	"strings"
	"time"
)

var SlowLog func(script string, d time.Duration, verdict string)

type Solver struct {
	bin     string
	args    []string
	cmd     *exec.Cmd
	in      io.WriteCloser
	out     *bufio.Reader
	Calls   int           // check-sat calls
	Time    time.Duration // time spent in check-sat
	timeout int           // ms
	// script of the current context (for standalone re-checking)
	script        []string
	marks         []int
	Errors        []string
	name          string
	live          bool // the process context mirrors the script (incremental mode)
	noIncremental bool
}

func NewSolver(bin string, args []string, timeoutMs int) (*Solver, error) {
	cmd := exec.Command(bin, args...)
	in, err := cmd.StdinPipe()
	if err != nil {
		return nil, err
	}
	outp, err := cmd.StdoutPipe()
	if err != nil {
		return nil, err
	}
	cmd.Stderr = cmd.Stdout
	if err := cmd.Start(); err != nil {
		return nil, err
	}
	s := &Solver{cmd: cmd, in: in, out: bufio.NewReaderSize(outp, 1<<16), timeout: timeoutMs, name: bin, bin: bin, args: args}
	return s, nil
}

func (s *Solver) Close() {
	if s == nil || s.cmd == nil {
		return
	}
	s.in.Close()
	done := make(chan struct{})
	go func() { s.cmd.Wait(); close(done) }()
	select {
	case <-done:
	case <-time.After(2 * time.Second):
		s.cmd.Process.Kill()
	}
}

// readSexp reads one response: either an atom line or a balanced s-expression.
func (s *Solver) readSexp() string {
	var b strings.Builder
	depth := 0
	inStr := false
	started := false
	for {
		c, err := s.out.ReadByte()
		if err != nil {
			panic(engineErr("solver died: " + err.Error() + " after: " + b.String()))
		}
		if !started {
			if c == ' ' || c == '\n' || c == '\r' || c == '\t' {
				continue
			}
			started = true
		}
		if inStr {
			b.WriteByte(c)
			if c == '"' {
				inStr = false
			}
			continue
		}
		switch c {
		case '"':
			inStr = true
			b.WriteByte(c)
		case '(':
			depth++
			b.WriteByte(c)
		case ')':
			depth--
			b.WriteByte(c)
			if depth == 0 {
				return b.String()
			}
		case '\n':
			if depth == 0 {
				return strings.TrimSpace(b.String())
			}
			b.WriteByte(' ')
		default:
			b.WriteByte(c)
		}
	}
}

// raw sends one command and reads one response (used for options and
// get-value, which always answer).
func (s *Solver) raw(cmd string) string {
	if _, err := io.WriteString(s.in, cmd+"\n"); err != nil {
		panic(engineErr("solver write: " + err.Error()))
	}
	r := s.readSexp()
	if strings.HasPrefix(r, "(error") {
		s.Errors = append(s.Errors, cmd+" => "+r)
	}
	return r
}

// The context is kept as a script; every check-sat re-sends it after a
// (reset).  z3's incremental core (push/pop) answers `unknown` after 10 s on
// string constraints that the same binary decides in 70 ms from a fresh
// context, so incrementality is given up on purpose; the process stays alive
// (no start-up cost per query).

func (s *Solver) send(cmd string) {
	if _, err := io.WriteString(s.in, cmd+"\n"); err != nil {
		panic(engineErr("solver write: " + err.Error()))
	}
}

// Fresh starts a new path: empty context, incremental mode.
func (s *Solver) Fresh() {
	s.script = s.script[:0]
	s.marks = s.marks[:0]
	s.send("(reset)\n(set-option :produce-models true)")
	if strings.Contains(s.bin, "z3") {
		s.send(fmt.Sprintf("(set-option :timeout %d)", s.timeout))
	}
	s.live = !s.noIncremental
}

// degrade gives up the incremental context for the rest of the path (string
// theory: z3's incremental core is far weaker than a fresh context).
func (s *Solver) degrade() { s.live = false }

func (s *Solver) Push() {
	s.marks = append(s.marks, len(s.script))
	if s.live {
		s.send("(push 1)")
	}
}

func (s *Solver) Pop() {
	n := s.marks[len(s.marks)-1]
	s.marks = s.marks[:len(s.marks)-1]
	s.script = s.script[:n]
	if s.live {
		s.send("(pop 1)")
	}
}

func (s *Solver) Depth() int { return len(s.marks) }

func (s *Solver) Declare(name string, srt smtSort) {
	c := fmt.Sprintf("(declare-const %s %s)", name, srt)
	s.script = append(s.script, c)
	if srt == sStr || srt == sReal {
		s.degrade()
	}
	if s.live {
		s.send(c)
	}
}

func (s *Solver) DeclareFun(name string, sig string) {
	c := fmt.Sprintf("(declare-fun %s %s)", name, sig)
	s.script = append(s.script, c)
	if s.live {
		s.send(c)
	}
}

func (s *Solver) Assert(t string) {
	c := "(assert " + t + ")"
	s.script = append(s.script, c)
	if s.live && strings.Contains(t, "(str.") {
		s.degrade()
	}
	if s.live {
		s.send(c)
	}
}

// Check returns "sat", "unsat" or "unknown" (timeouts and errors are unknown).
func (s *Solver) Check() (verdict string) {
	s.Calls++
	t0 := time.Now()
	// watchdog: z3's string solver does not always honour :timeout
	proc := s.cmd.Process
	killed := false
	wd := time.AfterFunc(time.Duration(2*s.timeout+5000)*time.Millisecond, func() {
		killed = true
		proc.Kill()
	})
	defer func() {
		wd.Stop()
		if r := recover(); r != nil {
			if !killed {
				panic(r)
			}
			if len(s.Errors) < 20 {
				s.Errors = append(s.Errors, "solver killed by watchdog (no answer within twice the timeout)")
			}
			script, marks := s.script, s.marks
			s.Restart()
			s.script, s.marks = script, marks
			s.live = false
			verdict = "unknown"
		}
	}()
	if s.live {
		s.send("(check-sat)\n(echo \"<<done>>\")")
	} else {
		var b strings.Builder
		b.WriteString("(reset)\n(set-option :produce-models true)\n")
		if strings.Contains(s.bin, "z3") {
			fmt.Fprintf(&b, "(set-option :timeout %d)\n", s.timeout)
		}
		for _, l := range s.script {
			b.WriteString(l)
			b.WriteByte('\n')
		}
		b.WriteString("(check-sat)\n(echo \"<<done>>\")")
		s.send(b.String())
	}
	verdict = "unknown"
	sawErr := false
	for {
		r := s.readSexp()
		if r == "<<done>>" || r == "\"<<done>>\"" {
			break
		}
		switch {
		case strings.HasPrefix(r, "(error"):
			sawErr = true
			if len(s.Errors) < 20 {
				s.Errors = append(s.Errors, r)
			}
		case r == "sat" || r == "unsat" || r == "unknown":
			verdict = r
		}
	}
	d := time.Since(t0)
	s.Time += d
	if sawErr {
		verdict = "unknown"
	}
	if verdict == "unknown" && s.live && !sawErr {
		// retry once from a fresh context before giving up
		s.live = false
		s.Calls--
		return s.Check()
	}
	if SlowLog != nil && d > 2*time.Second {
		SlowLog(s.Script(""), d, verdict)
	}
	return verdict
}

// CheckWith decides pc ∧ extra without changing the context.
func (s *Solver) CheckWith(extra string) string {
	s.Push()
	s.Assert(extra)
	r := s.Check()
	s.Pop()
	return r
}

// Script returns a standalone SMT-LIB2 script deciding the current context
// plus extra.
func (s *Solver) Script(extra string) string {
	var b strings.Builder
	for _, l := range s.script {
		b.WriteString(l)
		b.WriteByte('\n')
	}
	if extra != "" {
		b.WriteString("(assert " + extra + ")\n")
	}
	b.WriteString("(check-sat)\n")
	return b.String()
}

// GetValues evaluates terms in the current model (after a sat answer).
func (s *Solver) GetValues(terms []string) ([]string, error) {
	if len(terms) == 0 {
		return nil, nil
	}
	res := make([]string, 0, len(terms))
	// one at a time keeps parsing trivial and robust
	for _, t := range terms {
		r := s.raw("(get-value (" + t + "))")
		if strings.HasPrefix(r, "(error") {
			return nil, fmt.Errorf("get-value %s: %s", t, r)
		}
		// r = ((term value))
		r = strings.TrimSpace(r)
		if len(r) < 4 {
			return nil, fmt.Errorf("get-value: short answer %q", r)
		}
		inner := strings.TrimSpace(r[1 : len(r)-1]) // (term value)
		inner = strings.TrimSpace(inner[1 : len(inner)-1])
		// split off the term: value is the last s-expression/atom
		val := lastSexp(inner)
		res = append(res, val)
	}
	return res, nil
}

func lastSexp(s string) string {
	s = strings.TrimSpace(s)
	if s == "" {
		return s
	}
	end := len(s)
	if s[end-1] == '"' {
		// string literal: scan back to the opening quote (doubling = escape)
		i := end - 2
		for i >= 0 {
			if s[i] == '"' {
				if i > 0 && s[i-1] == '"' {
					i -= 2
					continue
				}
				return s[i:]
			}
			i--
		}
		return s
	}
	if s[end-1] == ')' {
		depth := 0
		inStr := false
		for i := end - 1; i >= 0; i-- {
			c := s[i]
			if c == '"' {
				inStr = !inStr
				continue
			}
			if inStr {
				continue
			}
			if c == ')' {
				depth++
			} else if c == '(' {
				depth--
				if depth == 0 {
					return s[i:]
				}
			}
		}
		return s
	}
	i := strings.LastIndexAny(s, " \t\n")
	return s[i+1:]
}

// parse model values -------------------------------------------------------

func parseSmtInt(v string) (int64, bool) {
	v = strings.TrimSpace(v)
	neg := false
	if strings.HasPrefix(v, "(-") {
		neg = true
		v = strings.TrimSpace(v[2 : len(v)-1])
	}
	var n uint64
	if v == "" {
		return 0, false
	}
	for _, c := range v {
		if c < '0' || c > '9' {
			return 0, false
		}
		n = n*10 + uint64(c-'0')
	}
	if neg {
		return -int64(n), true
	}
	return int64(n), true
}

func parseSmtString(v string) (string, bool) {
	v = strings.TrimSpace(v)
	if len(v) < 2 || v[0] != '"' || v[len(v)-1] != '"' {
		return "", false
	}
	v = v[1 : len(v)-1]
	var b strings.Builder
	for i := 0; i < len(v); i++ {
		c := v[i]
		if c == '"' && i+1 < len(v) && v[i+1] == '"' {
			b.WriteByte('"')
			i++
			continue
		}
		if c == '\\' && i+1 < len(v) {
			// \u{X..}, \uXXXX, \xXX (old z3)
			if v[i+1] == 'u' && i+2 < len(v) && v[i+2] == '{' {
				j := strings.IndexByte(v[i:], '}')
				if j > 0 {
					var n int
					fmt.Sscanf(v[i+3:i+j], "%x", &n)
					b.WriteByte(byte(n))
					i += j
					continue
				}
			}
			if v[i+1] == 'u' && i+5 < len(v) {
				var n int
				if _, err := fmt.Sscanf(v[i+2:i+6], "%x", &n); err == nil {
					b.WriteByte(byte(n))
					i += 5
					continue
				}
			}
			if v[i+1] == 'x' && i+3 < len(v) {
				var n int
				if _, err := fmt.Sscanf(v[i+2:i+4], "%x", &n); err == nil {
					b.WriteByte(byte(n))
					i += 3
					continue
				}
			}
		}
		b.WriteByte(c)
	}
	return b.String(), true
}

// Restart replaces a dead solver process by a fresh one (empty context).
func (s *Solver) Restart() error {
	if s.cmd != nil && s.cmd.Process != nil {
		s.cmd.Process.Kill()
		s.cmd.Wait()
	}
	n, err := NewSolver(s.bin, s.args, s.timeout)
	if err != nil {
		return err
	}
	calls, tm, errs := s.Calls, s.Time, s.Errors
	*s = *n
	s.Calls, s.Time, s.Errors = calls, tm, errs
	return nil
}
