package gosym

// Symbolic scalar values: SMT terms of sort Bool, Int, String or Real.
// Concrete scalars stay ordinary Go values (as in x/tools' interp); a value
// becomes a *symv as soon as one operand of an operation is symbolic.

import (
	"fmt"
	"go/types"
	"math"
	"strconv"
	"strings"
)

type smtSort int

const (
	sBool smtSort = iota
	sInt
	sStr
	sReal
)

func (s smtSort) String() string {
	return [...]string{"Bool", "Int", "String", "Real"}[s]
}

const (
	ivMin = math.MinInt64 / 4
	ivMax = math.MaxInt64 / 4
)

type symv struct {
	s    smtSort
	t    string          // SMT-LIB term
	kind types.BasicKind // Go kind for sInt/sReal (types.Int, types.Uint8, ...)
	// conservative interval for sInt (saturating at ivMin/ivMax = unknown)
	lo, hi int64
	opaque bool   // produced by an imprecise model (must not decide anything)
	tbl    *table // finite-domain decision table (see table.go), nil otherwise
}

func (x *symv) String() string { return x.t }

func mkBool(t string) *symv { return &symv{s: sBool, t: t} }
func mkStr(t string) *symv  { return &symv{s: sStr, t: t} }
func mkInt(t string, kind types.BasicKind, lo, hi int64) *symv {
	if lo < ivMin {
		lo = ivMin
	}
	if hi > ivMax {
		hi = ivMax
	}
	return &symv{s: sInt, t: t, kind: kind, lo: lo, hi: hi}
}
func mkReal(t string, kind types.BasicKind) *symv { return &symv{s: sReal, t: t, kind: kind} }

func isSym(v value) bool { _, ok := v.(*symv); return ok }

// smtStr renders a Go string as an SMT-LIB 2.6 string literal.
func smtStr(s string) string {
	var b strings.Builder
	b.WriteByte('"')
	for i := 0; i < len(s); i++ {
		c := s[i]
		switch {
		case c == '"':
			b.WriteString(`""`)
		case c == '\\':
			b.WriteString(`\u{5c}`)
		case c >= 0x20 && c < 0x7f:
			b.WriteByte(c)
		default:
			fmt.Fprintf(&b, `\u{%x}`, c)
		}
	}
	b.WriteByte('"')
	return b.String()
}

func smtInt(n int64) string {
	if n < 0 {
		if n == math.MinInt64 {
			return "(- 9223372036854775808)"
		}
		return "(- " + strconv.FormatInt(-n, 10) + ")"
	}
	return strconv.FormatInt(n, 10)
}

func smtUint(n uint64) string { return strconv.FormatUint(n, 10) }

func smtReal(f float64) string {
	if f != f || math.IsInf(f, 0) {
		panic(engineErr("non-finite float in symbolic context"))
	}
	// exact rational rendering
	neg := f < 0
	if neg {
		f = -f
	}
	mant, exp := math.Frexp(f) // f = mant * 2^exp, mant in [0.5,1)
	m := uint64(mant * (1 << 53))
	e := exp - 53
	var s string
	ms := strconv.FormatUint(m, 10) + ".0"
	switch {
	case m == 0:
		s = "0.0"
	case e >= 0:
		s = "(* " + ms + " " + pow2(e) + ")"
	default:
		s = "(/ " + ms + " " + pow2(-e) + ")"
	}
	if neg {
		s = "(- " + s + ")"
	}
	return s
}

func pow2(e int) string {
	// 2^e as decimal real literal
	v := new(bigInt).exp2(e)
	return v.String() + ".0"
}

// termOf returns the SMT term for a scalar value (concrete or symbolic).
func termOf(v value) string {
	switch v := v.(type) {
	case *symv:
		return v.t
	case bool:
		if v {
			return "true"
		}
		return "false"
	case string:
		return smtStr(v)
	case int:
		return smtInt(int64(v))
	case int8:
		return smtInt(int64(v))
	case int16:
		return smtInt(int64(v))
	case int32:
		return smtInt(int64(v))
	case int64:
		return smtInt(v)
	case uint:
		return smtUint(uint64(v))
	case uint8:
		return smtUint(uint64(v))
	case uint16:
		return smtUint(uint64(v))
	case uint32:
		return smtUint(uint64(v))
	case uint64:
		return smtUint(v)
	case uintptr:
		return smtUint(uint64(v))
	case float64:
		return smtReal(v)
	case float32:
		return smtReal(float64(v))
	}
	panic(engineErr(fmt.Sprintf("termOf: unsupported %T", v)))
}

// interval of an integer value
func ivOf(v value) (int64, int64) {
	switch v := v.(type) {
	case *symv:
		return v.lo, v.hi
	case uint64:
		if v > uint64(ivMax) {
			return ivMax, ivMax
		}
		return int64(v), int64(v)
	case uint:
		if uint64(v) > uint64(ivMax) {
			return ivMax, ivMax
		}
		return int64(v), int64(v)
	}
	n := asInt64(v)
	if n < ivMin {
		return ivMin, ivMin
	}
	if n > ivMax {
		return ivMax, ivMax
	}
	return n, n
}

func satAdd(a, b int64) int64 {
	if a <= ivMin || b <= ivMin {
		return ivMin
	}
	if a >= ivMax || b >= ivMax {
		return ivMax
	}
	c := a + b
	if c < ivMin {
		return ivMin
	}
	if c > ivMax {
		return ivMax
	}
	return c
}

func satMul(a, b int64) int64 {
	if a == 0 || b == 0 {
		return 0
	}
	neg := (a < 0) != (b < 0)
	ua, ub := a, b
	if ua < 0 {
		ua = -ua
	}
	if ub < 0 {
		ub = -ub
	}
	if ua >= ivMax || ub >= ivMax || ua > ivMax/ub {
		if neg {
			return ivMin
		}
		return ivMax
	}
	if neg {
		return -(ua * ub)
	}
	return ua * ub
}

func min64(a ...int64) int64 {
	m := a[0]
	for _, x := range a[1:] {
		if x < m {
			m = x
		}
	}
	return m
}
func max64(a ...int64) int64 {
	m := a[0]
	for _, x := range a[1:] {
		if x > m {
			m = x
		}
	}
	return m
}

// kindRange returns the representable range of an integer kind (clipped to
// the interval domain for 64-bit kinds).
func kindRange(k types.BasicKind) (lo, hi int64, wide bool) {
	switch k {
	case types.Int8:
		return math.MinInt8, math.MaxInt8, false
	case types.Int16:
		return math.MinInt16, math.MaxInt16, false
	case types.Int32:
		return math.MinInt32, math.MaxInt32, false
	case types.Uint8:
		return 0, math.MaxUint8, false
	case types.Uint16:
		return 0, math.MaxUint16, false
	case types.Uint32:
		return 0, math.MaxUint32, false
	case types.Uint, types.Uint64, types.Uintptr:
		return 0, ivMax, true
	}
	return ivMin, ivMax, true
}

func kindRangeTerms(k types.BasicKind) (lo, hi string) {
	switch k {
	case types.Int8:
		return "(- 128)", "127"
	case types.Int16:
		return "(- 32768)", "32767"
	case types.Int32:
		return "(- 2147483648)", "2147483647"
	case types.Uint8:
		return "0", "255"
	case types.Uint16:
		return "0", "65535"
	case types.Uint32:
		return "0", "4294967295"
	case types.Uint, types.Uint64, types.Uintptr:
		return "0", "18446744073709551615"
	}
	return "(- 9223372036854775808)", "9223372036854775807"
}

func isUnsignedKind(k types.BasicKind) bool {
	switch k {
	case types.Uint, types.Uint8, types.Uint16, types.Uint32, types.Uint64, types.Uintptr:
		return true
	}
	return false
}

func basicKind(t types.Type) types.BasicKind {
	if b, ok := t.Underlying().(*types.Basic); ok {
		k := b.Kind()
		switch k {
		case types.UntypedInt:
			return types.Int
		case types.UntypedRune:
			return types.Int32
		case types.UntypedFloat:
			return types.Float64
		case types.UntypedBool:
			return types.Bool
		case types.UntypedString:
			return types.String
		}
		return k
	}
	return types.Invalid
}

// concrete integer of a given kind from int64
func intOfKind(k types.BasicKind, n int64) value {
	switch k {
	case types.Int:
		return int(n)
	case types.Int8:
		return int8(n)
	case types.Int16:
		return int16(n)
	case types.Int32:
		return int32(n)
	case types.Int64:
		return n
	case types.Uint:
		return uint(n)
	case types.Uint8:
		return uint8(n)
	case types.Uint16:
		return uint16(n)
	case types.Uint32:
		return uint32(n)
	case types.Uint64:
		return uint64(n)
	case types.Uintptr:
		return uintptr(n)
	}
	panic(engineErr(fmt.Sprintf("intOfKind: %v", k)))
}

// boolean term helpers with light simplification
func tNot(a string) string {
	switch a {
	case "true":
		return "false"
	case "false":
		return "true"
	}
	if strings.HasPrefix(a, "(not ") && balanced(a[5:len(a)-1]) {
		return a[5 : len(a)-1]
	}
	return "(not " + a + ")"
}

func balanced(s string) bool {
	d := 0
	inStr := false
	for i := 0; i < len(s); i++ {
		c := s[i]
		if c == '"' {
			inStr = !inStr
		}
		if inStr {
			continue
		}
		if c == '(' {
			d++
		} else if c == ')' {
			d--
			if d < 0 {
				return false
			}
		}
	}
	return d == 0
}

func tAnd(a, b string) string {
	if a == "true" {
		return b
	}
	if b == "true" {
		return a
	}
	if a == "false" || b == "false" {
		return "false"
	}
	return "(and " + a + " " + b + ")"
}

func tOr(a, b string) string {
	if a == "false" {
		return b
	}
	if b == "false" {
		return a
	}
	if a == "true" || b == "true" {
		return "true"
	}
	return "(or " + a + " " + b + ")"
}

func boolVal(v value) (conc bool, isConc bool, term string) {
	switch v := v.(type) {
	case bool:
		return v, true, termOf(v)
	case *symv:
		if v.t == "true" {
			return true, true, v.t
		}
		if v.t == "false" {
			return false, true, v.t
		}
		return false, false, v.t
	}
	panic(engineErr(fmt.Sprintf("boolVal: %T", v)))
}

// mkBoolV returns a Go bool when the term is a literal.
func mkBoolV(t string) value {
	switch t {
	case "true":
		return true
	case "false":
		return false
	}
	return mkBool(t)
}

// minimal big integer (only 2^e in decimal is needed)
type bigInt struct{ digits []byte } // little endian decimal

func (b *bigInt) exp2(e int) *bigInt {
	b.digits = []byte{1}
	for i := 0; i < e; i++ {
		carry := byte(0)
		for j := range b.digits {
			d := b.digits[j]*2 + carry
			b.digits[j] = d % 10
			carry = d / 10
		}
		if carry > 0 {
			b.digits = append(b.digits, carry)
		}
	}
	return b
}

func (b *bigInt) String() string {
	var sb strings.Builder
	for i := len(b.digits) - 1; i >= 0; i-- {
		sb.WriteByte('0' + b.digits[i])
	}
	return sb.String()
}

var (
	tString = types.Typ[types.String]
	tRune   = types.Typ[types.Int32]
	tBytes  = types.NewSlice(types.Typ[types.Uint8])
)
