package gosym

// sync.Map modelled as an insertion-ordered association list keyed by the
// object's address; every operation is a scheduling point (it is atomic).

import (
	"go/token"
	"go/types"
)

func (m *machine) syncMap(p value) *mapV {
	if m.syncMaps == nil {
		m.syncMaps = map[*value]*mapV{}
	}
	k := p.(*value)
	mv := m.syncMaps[k]
	if mv == nil {
		mv = &mapV{keyT: types.NewInterfaceType(nil, nil)}
		m.syncMaps[k] = mv
	}
	return mv
}

func init() {
	intrinsics["(*sync.Map).Load"] = func(fr *frame, a []value) (value, bool) {
		fr.m.schedPoint("syncmap.load")
		if e := fr.m.mapFind(fr.m.syncMap(a[0]), a[1]); e != nil {
			return tuple{e.v, true}, true
		}
		return tuple{iface{}, false}, true
	}
	intrinsics["(*sync.Map).Store"] = func(fr *frame, a []value) (value, bool) {
		fr.m.schedPoint("syncmap.store")
		fr.m.mapInsert(fr.m.syncMap(a[0]), a[1], a[2])
		return nil, true
	}
	intrinsics["(*sync.Map).Delete"] = func(fr *frame, a []value) (value, bool) {
		fr.m.schedPoint("syncmap.delete")
		fr.m.mapDelete(fr.m.syncMap(a[0]), a[1])
		return nil, true
	}
	intrinsics["(*sync.Map).LoadOrStore"] = func(fr *frame, a []value) (value, bool) {
		fr.m.schedPoint("syncmap.loadorstore")
		mv := fr.m.syncMap(a[0])
		if e := fr.m.mapFind(mv, a[1]); e != nil {
			return tuple{e.v, true}, true
		}
		fr.m.mapInsert(mv, a[1], a[2])
		return tuple{a[2], false}, true
	}
	intrinsics["(*sync.Map).LoadAndDelete"] = func(fr *frame, a []value) (value, bool) {
		fr.m.schedPoint("syncmap.loadanddelete")
		mv := fr.m.syncMap(a[0])
		if e := fr.m.mapFind(mv, a[1]); e != nil {
			v := e.v
			fr.m.mapDelete(mv, a[1])
			return tuple{v, true}, true
		}
		return tuple{iface{}, false}, true
	}
	intrinsics["(*sync.Map).Range"] = func(fr *frame, a []value) (value, bool) {
		m := fr.m
		m.schedPoint("syncmap.range")
		mv := m.syncMap(a[0])
		it := &mapIter{}
		it.ents = append(it.ents, mv.entries...)
		m.permute(it)
		for {
			t := it.next()
			if !t[0].(bool) {
				break
			}
			r := call(m, fr, token.NoPos, a[1], []value{t[1], t[2]})
			if b, ok := r.(bool); ok && !b {
				break
			}
		}
		return nil, true
	}
}
