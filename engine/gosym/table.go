package gosym

// Finite-domain lifting.  A value selected by a symbolic index from a concrete
// pool (zz.OneOf, zz.Pick) carries a decision table: for every assignment of
// its index variables the concrete value.  Operations whose operands are all
// concrete or table-valued are computed natively per assignment; the result is
// again a table (with an equivalent ite-term over the index variables) or, for
// boolean results, directly an SMT term over the index variables.  The solver
// still decides every branch and assertion, but over integer index variables
// instead of the string theory.

import (
	"fmt"
	"go/token"
	"go/types"
	"sort"
	"strings"
)

type table struct {
	vars []string // SMT names of the index variables
	dims []int
	vals []value // row-major, len = prod(dims)
}

const maxTable = 2048

func (t *table) size() int {
	n := 1
	for _, d := range t.dims {
		n *= d
	}
	return n
}

func tblOf(v value) *table {
	if s, ok := v.(*symv); ok {
		return s.tbl
	}
	return nil
}

func isConcScalar(v value) bool {
	switch v.(type) {
	case bool, string, int, int8, int16, int32, int64, uint, uint8, uint16, uint32, uint64, uintptr, float64, float32:
		return true
	}
	return false
}

// lift applies f to every assignment of the index variables of args.
// args must be concrete scalars or table-valued; otherwise ok=false.
// f returns (result, valid); errTerm describes the assignments where f was
// not valid (e.g. out-of-range slicing).
func (m *machine) lift(args []value, f func(c []value) (value, bool)) (res value, errTerm string, ok bool) {
	var vars []string
	var dims []int
	any := false
	for _, a := range args {
		if a == nil || isConcScalar(a) {
			continue
		}
		t := tblOf(a)
		if t == nil {
			return nil, "", false
		}
		any = true
		for i, v := range t.vars {
			found := false
			for _, w := range vars {
				if w == v {
					found = true
				}
			}
			if !found {
				vars = append(vars, v)
				dims = append(dims, t.dims[i])
			}
		}
	}
	if !any {
		return nil, "", false
	}
	total := 1
	for _, d := range dims {
		total *= d
		if total > maxTable {
			return nil, "", false
		}
	}
	out := &table{vars: vars, dims: dims, vals: make([]value, total)}
	bad := make([]bool, total)
	anyBad := false
	asg := make([]int, len(vars))
	conc := make([]value, len(args))
	for k := 0; k < total; k++ {
		// decode k
		r := k
		for i := len(dims) - 1; i >= 0; i-- {
			asg[i] = r % dims[i]
			r /= dims[i]
		}
		for ai, a := range args {
			t := tblOf(a)
			if t == nil {
				conc[ai] = a
				continue
			}
			idx := 0
			for i, v := range t.vars {
				for j, w := range vars {
					if w == v {
						idx = idx*t.dims[i] + asg[j]
					}
				}
			}
			conc[ai] = t.vals[idx]
		}
		v, valid := f(conc)
		if !valid {
			bad[k] = true
			anyBad = true
			continue
		}
		out.vals[k] = v
	}
	errTerm = "false"
	if anyBad {
		bt := &table{vars: vars, dims: dims, vals: make([]value, total)}
		var proto value
		for k := range bad {
			bt.vals[k] = bad[k]
			if !bad[k] && proto == nil {
				proto = out.vals[k]
			}
		}
		errTerm = bt.boolTerm()
		if proto == nil {
			return nil, errTerm, true
		}
		for k := range bad {
			if bad[k] {
				out.vals[k] = proto
			}
		}
	}
	return out.toValue(), errTerm, true
}

// toValue turns a table into a value: a constant, a Bool term, or a symv
// carrying the table.
func (t *table) toValue() value {
	first := t.vals[0]
	same := true
	for _, v := range t.vals[1:] {
		if !sameConc(v, first) {
			same = false
			break
		}
	}
	if same {
		return first
	}
	switch first.(type) {
	case bool:
		return mkBoolV(t.boolTerm())
	case string:
		r := mkStr(t.iteTerm())
		r.tbl = t
		r.lo, r.hi = ivMax, 0
		for _, v := range t.vals {
			l := int64(len(v.(string)))
			if l < r.lo {
				r.lo = l
			}
			if l > r.hi {
				r.hi = l
			}
		}
		return r
	case float64, float32:
		r := mkReal(t.iteTerm(), types.Float64)
		r.tbl = t
		return r
	}
	lo, hi := int64(ivMax), int64(ivMin)
	for _, v := range t.vals {
		l, h := ivOf(v)
		if l < lo {
			lo = l
		}
		if h > hi {
			hi = h
		}
	}
	r := mkInt(t.iteTerm(), kindOfConc(first), lo, hi)
	r.tbl = t
	return r
}

func kindOfConc(v value) types.BasicKind {
	switch v.(type) {
	case int:
		return types.Int
	case int8:
		return types.Int8
	case int16:
		return types.Int16
	case int32:
		return types.Int32
	case int64:
		return types.Int64
	case uint:
		return types.Uint
	case uint8:
		return types.Uint8
	case uint16:
		return types.Uint16
	case uint32:
		return types.Uint32
	case uint64:
		return types.Uint64
	case uintptr:
		return types.Uintptr
	}
	return types.Int
}

func sameConc(a, b value) bool {
	defer func() { recover() }()
	return equalsConcrete(a, b)
}

// iteTerm renders the table as nested ite over the index variables.
func (t *table) iteTerm() string {
	var rec func(level, base int) string
	rec = func(level, base int) string {
		if level == len(t.vars) {
			return termOf(t.vals[base])
		}
		stride := 1
		for _, d := range t.dims[level+1:] {
			stride *= d
		}
		parts := make([]string, t.dims[level])
		for i := range parts {
			parts[i] = rec(level+1, base+i*stride)
		}
		// collapse equal branches
		allSame := true
		for _, p := range parts[1:] {
			if p != parts[0] {
				allSame = false
			}
		}
		if allSame {
			return parts[0]
		}
		out := parts[len(parts)-1]
		for i := len(parts) - 2; i >= 0; i-- {
			if parts[i] == out {
				continue
			}
			out = "(ite (= " + t.vars[level] + " " + fmt.Sprint(i) + ") " + parts[i] + " " + out + ")"
		}
		return out
	}
	return rec(0, 0)
}

// boolTerm renders a boolean table as a term over the index variables.
func (t *table) boolTerm() string {
	nTrue := 0
	for _, v := range t.vals {
		if v.(bool) {
			nTrue++
		}
	}
	if nTrue == 0 {
		return "false"
	}
	if nTrue == len(t.vals) {
		return "true"
	}
	var rec func(level, base int) string
	rec = func(level, base int) string {
		if level == len(t.vars) {
			if t.vals[base].(bool) {
				return "true"
			}
			return "false"
		}
		stride := 1
		for _, d := range t.dims[level+1:] {
			stride *= d
		}
		// group indices by sub-term
		groups := map[string][]int{}
		var order []string
		for i := 0; i < t.dims[level]; i++ {
			s := rec(level+1, base+i*stride)
			if _, ok := groups[s]; !ok {
				order = append(order, s)
			}
			groups[s] = append(groups[s], i)
		}
		if len(order) == 1 {
			return order[0]
		}
		sort.Strings(order)
		var disj []string
		for _, s := range order {
			if s == "false" {
				continue
			}
			var eqs []string
			for _, i := range groups[s] {
				eqs = append(eqs, "(= "+t.vars[level]+" "+fmt.Sprint(i)+")")
			}
			sel := eqs[0]
			if len(eqs) > 1 {
				sel = "(or " + strings.Join(eqs, " ") + ")"
			}
			disj = append(disj, tAnd(sel, s))
		}
		if len(disj) == 0 {
			return "false"
		}
		if len(disj) == 1 {
			return disj[0]
		}
		return "(or " + strings.Join(disj, " ") + ")"
	}
	return rec(0, 0)
}

// newChoice creates the table of a fresh index variable over concrete options.
func newChoice(idxVar string, opts []value) *table {
	return &table{vars: []string{idxVar}, dims: []int{len(opts)}, vals: opts}
}

// liftBinop tries the finite-domain evaluation of a binary operation.
func (m *machine) liftBinop(op token.Token, t types.Type, x, y value) (value, bool) {
	if tblOf(x) == nil && tblOf(y) == nil {
		return nil, false
	}
	res, errT, ok := m.lift([]value{x, y}, func(c []value) (value, bool) {
		switch op {
		case token.EQL:
			return equalsConcrete(c[0], c[1]), true
		case token.NEQ:
			return !equalsConcrete(c[0], c[1]), true
		case token.QUO, token.REM:
			if isConcreteInt(c[1]) && isZeroInt(c[1]) {
				return nil, false
			}
		}
		return binopConcrete(op, t, c[0], c[1]), true
	})
	if !ok {
		return nil, false
	}
	if errT != "false" {
		if m.branch(errT) {
			panic(m.rtPanic("integer divide by zero"))
		}
	}
	return res, true
}
