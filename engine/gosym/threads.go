package gosym

// Thread model: every target goroutine is a Go goroutine of the engine, but
// exactly one of them runs at a time (baton passing).  At each visible
// operation (lock, unlock, atomic, channel operation, yield, thread start and
// end) the scheduler choice is a decision of the path: all enabled threads are
// explored, subject to an optional preemption bound.

import (
	"fmt"
	"go/types"
	"strconv"

	"golang.org/x/tools/go/ssa"
)

type thread struct {
	id       int
	name     string
	wake     chan bool
	exited   bool // goroutine finished
	done     bool // target function returned
	blocked  func() bool
	blockOn  string
	onTicker bool // blocked on a ticker/timer channel whose delivery budget is used up
	top      *frame
	started  bool
	// the thread slept or waited for a timer since it last looked at a context's
	// cancellation (select on Done, ctx.Err)
	sleptSinceDone bool
}

type lockState struct {
	writer  int // thread id+1 of the holder, 0 = free
	readers int
	wwait   int // writers waiting (writer preference for RWMutex)
}

func (m *machine) newThread(name string, fn value, args []value) *thread {
	t := &thread{id: len(m.threads), name: name, wake: make(chan bool, 1)}
	m.threads = append(m.threads, t)
	m.wg.Add(1)
	go func() {
		defer m.wg.Done()
		defer func() { t.exited = true }()
		if !<-t.wake {
			return
		}
		t.started = true
		var out interface{}
		func() {
			defer func() {
				if r := recover(); r != nil {
					if _, ok := r.(threadAbort); ok {
						out = r
						return
					}
					out = r
				}
			}()
			call(m, nil, 0, fn, args)
		}()
		if _, ok := out.(threadAbort); ok {
			return
		}
		t.done = true
		if out != nil {
			// a panic or control event in any thread ends the path
			m.endPath(out)
			return
		}
		if t.id == 0 {
			m.endPath(nil)
			return
		}
		// pass the baton on
		m.threadExit(t)
	}()
	return t
}

func (m *machine) endPath(out interface{}) {
	select {
	case m.doneCh <- out:
	default:
	}
}

func (m *machine) enabled() []*thread {
	var out []*thread
	for _, t := range m.threads {
		if t.done || t.exited && t.started {
			continue
		}
		if t.blocked != nil && !t.blocked() {
			continue
		}
		out = append(out, t)
	}
	return out
}

// enabledOthers: the threads other than the current one that could run now
// (long timers of other threads are not considered ready while this is evaluated).
func (m *machine) enabledOthers() []*thread {
	if m.inLongCheck {
		return nil
	}
	m.inLongCheck = true
	defer func() { m.inLongCheck = false }()
	var out []*thread
	for _, t := range m.enabled() {
		if t != m.cur {
			out = append(out, t)
		}
	}
	return out
}

func (m *machine) spawn(name string, fn value, args []value) {
	t := m.newThread(name, fn, args)
	_ = t
	m.schedPoint("go")
}

// schedPoint is a visible operation: the scheduler may switch threads.
func (m *machine) schedPoint(what string) {
	if len(m.threads) <= 1 {
		return
	}
	cands := m.enabled()
	if len(cands) == 0 {
		panic(engineErr("schedPoint: no enabled thread"))
	}
	self := m.cur
	selfEnabled := false
	for _, c := range cands {
		if c == self {
			selfEnabled = true
		}
	}
	// voluntary yields (zz.Yield, time.Sleep, runtime.Gosched) are not preemptions:
	// switching there is always explored and does not count against the bound
	voluntary := what == "yield" || what == "sleep" || what == "gosched"
	if what == "timer" {
		// waiting for a timer lets time pass: other threads may run.  The first
		// TimerYields such waits of a path are explored as free switches, later
		// ones are ordinary preemption points (counted against the bound).
		ty := 2
		if v, ok := m.cfg.Params["timer_yields"]; ok {
			ty = v
		}
		m.bounds["free switches at timer waits"] = strconv.Itoa(ty)
		if m.timerYields < ty {
			voluntary = true
		}
	}
	if selfEnabled && !voluntary && m.cfg.Preempt >= 0 && m.preempts >= m.cfg.Preempt {
		return
	}
	if len(cands) == 1 && selfEnabled {
		return
	}
	// deterministic order: current thread first, then by id
	if selfEnabled {
		ord := []*thread{self}
		for _, c := range cands {
			if c != self {
				ord = append(ord, c)
			}
		}
		cands = ord
	}
	if what == "timer" && voluntary {
		m.timerYields++
	}
	ch := m.chooseN("sched", len(cands), func(int) string { return "true" })
	next := cands[ch]
	if next == self {
		return
	}
	if selfEnabled && !voluntary {
		m.preempts++
	}
	m.switchTo(next)
}

func (m *machine) switchTo(next *thread) {
	self := m.cur
	m.cur = next
	next.blocked = nil
	next.wake <- true
	if !<-self.wake {
		panic(threadAbort{})
	}
	m.cur = self
}

// block suspends the current thread until ready() holds.
func (m *machine) block(what string, ready func() bool) {
	if ready() {
		return
	}
	self := m.cur
	self.blocked = ready
	self.blockOn = what
	for !ready() {
		var cands []*thread
		for _, t := range m.enabled() {
			if t != self {
				cands = append(cands, t)
			}
		}
		if len(cands) == 0 {
			m.deadlock(what)
		}
		ch := 0
		if len(cands) > 1 {
			ch = m.chooseN("sched", len(cands), func(int) string { return "true" })
		}
		m.switchTo(cands[ch])
	}
	self.blocked = nil
}

// deadlockOutcome classifies "no thread can run": a bound cut when a thread
// waits for a timer beyond the delivery bound, otherwise a deadlock violation.
func (m *machine) deadlockOutcome(what string) pathEnd {
	desc := ""
	ticker := false
	for _, t := range m.threads {
		if !t.done && t.blocked != nil {
			desc += fmt.Sprintf(" [%s blocked on %s]", t.name, t.blockOn)
			if t.onTicker {
				ticker = true
			}
		}
	}
	if ticker {
		return pathEnd{"ticks-exhausted", "a thread waits for a timer beyond the delivery bound" + desc}
	}
	if m.notes["allow_main_block"] != nil {
		return pathEnd{"blocked", "main blocked: " + what}
	}
	if !m.replaying() {
		m.res.mu.Lock()
		m.res.Obligations++
		m.res.mu.Unlock()
		m.violated("deadlock", "true", "all threads blocked ("+what+")"+desc)
	}
	return pathEnd{"deadlock", "all threads blocked (" + what + ")" + desc}
}

func (m *machine) deadlock(what string) {
	panic(m.deadlockOutcome(what))
}

func (m *machine) threadExit(t *thread) {
	cands := m.enabled()
	if len(cands) == 0 {
		// everybody else is blocked: the main thread can never finish
		m.endPath(m.deadlockOutcome("after exit of " + t.name))
		return
	}
	ch := 0
	if len(cands) > 1 {
		func() {
			defer func() {
				if r := recover(); r != nil {
					m.endPath(r)
					ch = -1
				}
			}()
			ch = m.chooseN("sched", len(cands), func(int) string { return "true" })
		}()
		if ch < 0 {
			return
		}
	}
	next := cands[ch]
	m.cur = next
	next.blocked = nil
	next.wake <- true
}

// ---------------------------------------------------------------------------
// locks

func (m *machine) lockOf(p *value) *lockState {
	ls := m.locks[p]
	if ls == nil {
		ls = &lockState{}
		m.locks[p] = ls
	}
	return ls
}

func (m *machine) mutexLock(p *value) {
	ls := m.lockOf(p)
	m.schedPoint("lock")
	if ls.writer != 0 || ls.readers > 0 {
		ls.wwait++
		m.block("Lock", func() bool { return ls.writer == 0 && ls.readers == 0 })
		ls.wwait--
	}
	ls.writer = m.cur.id + 1
}

func (m *machine) mutexTryLock(p *value) bool {
	ls := m.lockOf(p)
	m.schedPoint("trylock")
	if ls.writer != 0 || ls.readers > 0 {
		return false
	}
	ls.writer = m.cur.id + 1
	return true
}

func (m *machine) mutexUnlock(p *value) {
	ls := m.lockOf(p)
	if ls.writer == 0 {
		panic(targetPanic{iface{t: types.Typ[types.String], v: "sync: unlock of unlocked mutex"}})
	}
	ls.writer = 0
	// no scheduling point: for data-race-free code the steps between a release and
	// the thread's next acquire touch no shared state, so switching at the next
	// acquire covers the same behaviours
}

func (m *machine) rwRLock(p *value) {
	ls := m.lockOf(p)
	m.schedPoint("rlock")
	if ls.writer != 0 || ls.wwait > 0 {
		m.block("RLock", func() bool { return ls.writer == 0 && ls.wwait == 0 })
	}
	ls.readers++
}

func (m *machine) rwRUnlock(p *value) {
	ls := m.lockOf(p)
	if ls.readers <= 0 {
		panic(targetPanic{iface{t: types.Typ[types.String], v: "sync: RUnlock of unlocked RWMutex"}})
	}
	ls.readers--
}

// ---------------------------------------------------------------------------
// channels

type chanV struct {
	cap      int
	buf      []value
	closed   bool
	elem     types.Type
	recvWait int
	ticker   bool // time.Ticker / time.After channel: may deliver while the budget lasts
	long     bool // a time-out (>= 1 s): delivers only when nothing else can happen
	name     string
	isDone   bool // a context's Done channel
}

func (m *machine) makeChan(size int, elem types.Type) *chanV {
	return &chanV{cap: size, elem: elem}
}

func (c *chanV) canRecv(m *machine) bool {
	if c.ticker && c.long {
		// a time-out fires when no thread can run and no short timer can deliver any more
		if m.tickBudget > 0 || m.inLongCheck {
			return false
		}
		for _, t := range m.enabledOthers() {
			_ = t
			return false
		}
		return true
	}
	if c.ticker {
		return m.tickBudget > 0
	}
	return len(c.buf) > 0 || c.closed
}

func (c *chanV) canSend() bool {
	if c.closed {
		return true // will panic
	}
	if c.cap > 0 {
		return len(c.buf) < c.cap
	}
	return len(c.buf) == 0
}

func (m *machine) chanSend(cv value, v value) {
	c := cv.(*chanV)
	m.schedPoint("send")
	if c == nil {
		m.block("send on nil channel", func() bool { return false })
	}
	m.block("chan send", c.canSend)
	if c.closed {
		panic(targetPanic{iface{t: types.Typ[types.String], v: "send on closed channel"}})
	}
	c.buf = append(c.buf, copyVal(v))
	if c.cap == 0 {
		// rendezvous: wait until the value has been taken
		item := len(c.buf)
		_ = item
		m.block("chan send (unbuffered, waiting for receiver)", func() bool { return len(c.buf) == 0 || c.closed })
	}
}

func (m *machine) chanRecv(cv value, elem types.Type) (value, bool) {
	c := cv.(*chanV)
	if c != nil && c.ticker {
		// waiting for a timer is waiting for time to pass: any other thread may run
		// meanwhile, so this is a voluntary yield, not a preemption
		m.schedPoint("timer")
	} else {
		m.schedPoint("recv")
	}
	if c == nil {
		m.block("receive from nil channel", func() bool { return false })
	}
	c.recvWait++
	m.cur.onTicker = c.ticker
	m.block("chan recv", func() bool { return c.canRecv(m) })
	m.cur.onTicker = false
	c.recvWait--
	return m.takeFrom(c, elem)
}

func (m *machine) takeFrom(c *chanV, elem types.Type) (value, bool) {
	if c.ticker && c.long {
		m.cur.sleptSinceDone = true
		m.longTimerFired = true
		return zero(elem), true
	}
	if c.ticker {
		m.cur.sleptSinceDone = true
		m.tickBudget--
		return zero(elem), true
	}
	if len(c.buf) > 0 {
		v := c.buf[0]
		c.buf = append(c.buf[:0:0], c.buf[1:]...)
		return v, true
	}
	return zero(elem), false
}

func (m *machine) chanClose(cv value) {
	c := cv.(*chanV)
	if c == nil {
		panic(targetPanic{iface{t: types.Typ[types.String], v: "close of nil channel"}})
	}
	if c.closed {
		panic(targetPanic{iface{t: types.Typ[types.String], v: "close of closed channel"}})
	}
	c.closed = true
	m.schedPoint("close")
}

func (m *machine) doSelect(fr *frame, instr *ssa.Select) value {
	type cs struct {
		c    *chanV
		send bool
		val  value
	}
	var cases []cs
	for _, st := range instr.States {
		c, _ := fr.get(st.Chan).(*chanV)
		k := cs{c: c, send: st.Dir == types.SendOnly}
		if k.send {
			k.val = fr.get(st.Send)
		}
		cases = append(cases, k)
	}
	ready := func() []int {
		var r []int
		for i, k := range cases {
			if k.c == nil {
				continue
			}
			if k.send {
				if k.c.closed || (k.c.cap > 0 && len(k.c.buf) < k.c.cap) || (k.c.cap == 0 && k.c.recvWait > 0 && len(k.c.buf) == 0) {
					r = append(r, i)
				}
			} else if k.c.canRecv(m) {
				r = append(r, i)
			}
		}
		return r
	}
	// a select that can only proceed through a timer case waits for time to pass:
	// a voluntary yield (always explored, not counted as a preemption)
	onlyTimers := instr.Blocking
	nt := 0
	for _, i := range ready() {
		if cases[i].c.ticker {
			nt++
		} else {
			onlyTimers = false
		}
	}
	if onlyTimers && nt > 0 {
		m.schedPoint("timer")
	} else {
		m.schedPoint("select")
	}
	looksAtDone := false
	for _, k := range cases {
		if k.c != nil && k.c.isDone {
			looksAtDone = true
		}
	}
	if looksAtDone {
		defer func() { m.cur.sleptSinceDone = false }()
	}
	rd := ready()
	if len(rd) == 0 {
		if !instr.Blocking {
			return m.selectResult(instr, -1, nil, false)
		}
		for _, k := range cases {
			if k.c != nil && !k.send {
				k.c.recvWait++
			}
		}
		for _, k := range cases {
			if k.c != nil && k.c.ticker {
				m.cur.onTicker = true
			}
		}
		m.block("select", func() bool { return len(ready()) > 0 })
		m.cur.onTicker = false
		for _, k := range cases {
			if k.c != nil && !k.send {
				k.c.recvWait--
			}
		}
		rd = ready()
	}
	// record whether a cancelled context was visible at this check
	sawClosed := false
	for _, i := range rd {
		if cases[i].c.isDone && cases[i].c.closed {
			sawClosed = true
		}
	}
	m.lastDoneSawClosed[m.cur.id] = sawClosed
	ch := rd[0]
	if len(rd) > 1 {
		ch = rd[m.chooseN("select", len(rd), func(int) string { return "true" })]
	}
	k := cases[ch]
	if k.send {
		if k.c.closed {
			panic(targetPanic{iface{t: types.Typ[types.String], v: "send on closed channel"}})
		}
		k.c.buf = append(k.c.buf, copyVal(k.val))
		if k.c.cap == 0 {
			m.block("select send (unbuffered)", func() bool { return len(k.c.buf) == 0 || k.c.closed })
		}
		return m.selectResult(instr, ch, nil, false)
	}
	v, ok := m.takeFrom(k.c, k.c.elem)
	return m.selectResult(instr, ch, v, ok)
}

func (m *machine) selectResult(instr *ssa.Select, chosen int, recv value, recvOk bool) value {
	r := tuple{chosen, recvOk}
	for i, st := range instr.States {
		if st.Dir == types.RecvOnly {
			var v value
			if i == chosen && recvOk {
				v = recv
			} else {
				v = zero(st.Chan.Type().Underlying().(*types.Chan).Elem())
			}
			r = append(r, v)
		}
	}
	return r
}
