package gosym

// Values (derived from x/tools go/ssa/interp):
//
// - bool, numbers (all built-in types distinguished), string   -- concrete scalars
// - *symv                                                      -- symbolic scalar (SMT term)
// - *mapV      -- maps: insertion-ordered association list, keys may be symbolic
// - *chanV     -- modelled channels
// - []value    -- slices (Go slices of boxed values: aliasing is exact)
// - iface, structure, array, *value (pointers), tuple, iter
// - *ssa.Function, *ssa.Builtin, *closure, *nativeFn

import (
	"bytes"
	"fmt"
	"go/types"
	"unsafe"

	"golang.org/x/tools/go/ssa"
)

type value interface{}

type tuple []value

type array []value

type iface struct {
	t types.Type
	v value
}

type structure []value

type iter interface {
	next() tuple
}

type closure struct {
	Fn  *ssa.Function
	Env []value
}

type bad struct{}

type mapEntry struct {
	k, v    value
	deleted bool
}

type mapV struct {
	keyT    types.Type
	entries []*mapEntry
}

func (mv *mapV) length() int {
	if mv == nil {
		return 0
	}
	return len(mv.entries)
}

func sameType(x, y types.Type) bool {
	if x == nil {
		return y == nil
	}
	return y != nil && types.Identical(x, y)
}

// eqTerm returns the (possibly symbolic) truth value of x == y as an SMT
// boolean term ("true"/"false" when decided concretely).
func (m *machine) eqTerm(t types.Type, x, y value) string {
	if sx, ok := x.(*symv); ok {
		return m.symEq(sx, y)
	}
	if sy, ok := y.(*symv); ok {
		return m.symEq(sy, x)
	}
	switch x := x.(type) {
	case structure:
		y := y.(structure)
		var tStruct *types.Struct
		if t != nil {
			tStruct, _ = t.Underlying().(*types.Struct)
		}
		r := "true"
		for i := range x {
			var ft types.Type
			if tStruct != nil {
				f := tStruct.Field(i)
				if f.Name() == "_" {
					continue
				}
				ft = f.Type()
			}
			r = tAnd(r, m.eqTerm(ft, x[i], y[i]))
			if r == "false" {
				return r
			}
		}
		return r
	case array:
		y := y.(array)
		var et types.Type
		if t != nil {
			et = t.Underlying().(*types.Array).Elem()
		}
		r := "true"
		for i := range x {
			r = tAnd(r, m.eqTerm(et, x[i], y[i]))
			if r == "false" {
				return r
			}
		}
		return r
	case iface:
		y := y.(iface)
		if !sameType(x.t, y.t) {
			return "false"
		}
		if x.t == nil {
			return "true"
		}
		if !types.Comparable(x.t) {
			panic(m.rtPanic("comparing uncomparable type " + x.t.String()))
		}
		return m.eqTerm(x.t, x.v, y.v)
	}
	if equalsConcrete(x, y) {
		return "true"
	}
	return "false"
}

func (m *machine) symEq(s *symv, o value) string {
	if s.tbl != nil && (isConcScalar(o) || tblOf(o) != nil) {
		if r, _, ok := m.lift([]value{s, o}, func(c []value) (value, bool) { return equalsConcrete(c[0], c[1]), true }); ok {
			return termOf(r)
		}
	}
	ot := termOf(o)
	if s.t == ot {
		return "true"
	}
	return "(= " + s.t + " " + ot + ")"
}

func equalsConcrete(x, y value) bool {
	switch x := x.(type) {
	case bool:
		return x == y.(bool)
	case int:
		return x == y.(int)
	case int8:
		return x == y.(int8)
	case int16:
		return x == y.(int16)
	case int32:
		return x == y.(int32)
	case int64:
		return x == y.(int64)
	case uint:
		return x == y.(uint)
	case uint8:
		return x == y.(uint8)
	case uint16:
		return x == y.(uint16)
	case uint32:
		return x == y.(uint32)
	case uint64:
		return x == y.(uint64)
	case uintptr:
		return x == y.(uintptr)
	case float32:
		return x == y.(float32)
	case float64:
		return x == y.(float64)
	case complex64:
		return x == y.(complex64)
	case complex128:
		return x == y.(complex128)
	case string:
		return x == y.(string)
	case *value:
		return x == y.(*value)
	case *chanV:
		return x == y.(*chanV)
	case unsafe.Pointer:
		return x == y.(unsafe.Pointer)
	}
	panic(engineErr(fmt.Sprintf("comparing uncomparable values %T and %T", x, y)))
}

// equals decides x == y, forking on a symbolic outcome.
func (m *machine) equals(t types.Type, x, y value) bool {
	return m.branch(m.eqTerm(t, x, y))
}

func load(T types.Type, addr *value) value {
	switch T := T.Underlying().(type) {
	case *types.Struct:
		v := (*addr).(structure)
		a := make(structure, len(v))
		for i := range a {
			a[i] = load(T.Field(i).Type(), &v[i])
		}
		return a
	case *types.Array:
		v := (*addr).(array)
		a := make(array, len(v))
		for i := range a {
			a[i] = load(T.Elem(), &v[i])
		}
		return a
	default:
		return *addr
	}
}

func store(T types.Type, addr *value, v value) {
	switch T := T.Underlying().(type) {
	case *types.Struct:
		lhs := (*addr).(structure)
		rhs := v.(structure)
		for i := range lhs {
			store(T.Field(i).Type(), &lhs[i], rhs[i])
		}
	case *types.Array:
		lhs := (*addr).(array)
		rhs := v.(array)
		for i := range lhs {
			store(T.Elem(), &lhs[i], rhs[i])
		}
	default:
		*addr = v
	}
}

// copyVal makes an unaliased copy of an aggregate value.
func copyVal(v value) value {
	switch v := v.(type) {
	case structure:
		a := make(structure, len(v))
		for i := range v {
			a[i] = copyVal(v[i])
		}
		return a
	case array:
		a := make(array, len(v))
		for i := range v {
			a[i] = copyVal(v[i])
		}
		return a
	}
	return v
}

func writeValue(buf *bytes.Buffer, v value, depth int) {
	if depth > 6 {
		buf.WriteString("...")
		return
	}
	switch v := v.(type) {
	case nil, bool, int, int8, int16, int32, int64, uint, uint8, uint16, uint32, uint64, uintptr, float32, float64, complex64, complex128:
		fmt.Fprintf(buf, "%v", v)
	case string:
		fmt.Fprintf(buf, "%q", v)
	case *symv:
		buf.WriteString("«" + v.t + "»")
	case *mapV:
		if v == nil {
			buf.WriteString("map(nil)")
			return
		}
		buf.WriteString("map[")
		for i, e := range v.entries {
			if i > 0 {
				buf.WriteString(" ")
			}
			writeValue(buf, e.k, depth+1)
			buf.WriteString(":")
			writeValue(buf, e.v, depth+1)
		}
		buf.WriteString("]")
	case *chanV:
		fmt.Fprintf(buf, "chan%p", v)
	case *value:
		if v == nil {
			buf.WriteString("<nil>")
		} else {
			fmt.Fprintf(buf, "&")
			writeValue(buf, *v, depth+1)
		}
	case iface:
		if v.t == nil {
			buf.WriteString("nil")
			return
		}
		fmt.Fprintf(buf, "(%s, ", v.t)
		writeValue(buf, v.v, depth+1)
		buf.WriteString(")")
	case structure:
		buf.WriteString("{")
		for i, e := range v {
			if i > 0 {
				buf.WriteString(" ")
			}
			writeValue(buf, e, depth+1)
		}
		buf.WriteString("}")
	case array:
		buf.WriteString("[")
		for i, e := range v {
			if i > 0 {
				buf.WriteString(" ")
			}
			writeValue(buf, e, depth+1)
		}
		buf.WriteString("]")
	case []value:
		buf.WriteString("[")
		for i, e := range v {
			if i > 0 {
				buf.WriteString(" ")
			}
			writeValue(buf, e, depth+1)
		}
		buf.WriteString("]")
	case *ssa.Function, *ssa.Builtin, *closure:
		fmt.Fprintf(buf, "func%p", v)
	case tuple:
		buf.WriteString("(")
		for i, e := range v {
			if i > 0 {
				buf.WriteString(", ")
			}
			writeValue(buf, e, depth+1)
		}
		buf.WriteString(")")
	default:
		fmt.Fprintf(buf, "<%T>", v)
	}
}

func toString(v value) string {
	var b bytes.Buffer
	writeValue(&b, v, 0)
	return b.String()
}

// ---------------------------------------------------------------------------
// maps

func (m *machine) mapFind(mv *mapV, k value) *mapEntry {
	if mv == nil {
		return nil
	}
	for _, e := range mv.entries {
		if m.equals(mv.keyT, e.k, k) {
			return e
		}
	}
	return nil
}

func (m *machine) mapInsert(mv *mapV, k, v value) {
	if e := m.mapFind(mv, k); e != nil {
		e.v = v
		return
	}
	mv.entries = append(mv.entries, &mapEntry{k: copyVal(k), v: v})
}

func (m *machine) mapDelete(mv *mapV, k value) {
	if e := m.mapFind(mv, k); e != nil {
		e.deleted = true
		for i, x := range mv.entries {
			if x == e {
				mv.entries = append(mv.entries[:i:i], mv.entries[i+1:]...)
				break
			}
		}
	}
}

type mapIter struct {
	ents []*mapEntry // snapshot in iteration order
	i    int
}

func (it *mapIter) next() tuple {
	for it.i < len(it.ents) {
		e := it.ents[it.i]
		it.i++
		if !e.deleted {
			return tuple{true, e.k, e.v}
		}
	}
	return tuple{false, nil, nil}
}

type stringIter struct {
	s string
	i int
}

func (it *stringIter) next() tuple {
	if it.i >= len(it.s) {
		return tuple{false, nil, nil}
	}
	for j, r := range it.s[it.i:] {
		_ = j
		k := it.i
		n := len(string(r))
		if r == 0xFFFD {
			n = 1
		}
		it.i += n
		return tuple{true, k, r}
	}
	return tuple{false, nil, nil}
}

// symbolic string iteration: the length has been concretised; every byte is
// an ASCII code point (stated alphabet assumption).
type symStringIter struct {
	m *machine
	s *symv
	n int
	i int
}

func (it *symStringIter) next() tuple {
	if it.i >= it.n {
		return tuple{false, nil, nil}
	}
	k := it.i
	it.i++
	c := mkInt("(str.to_code (str.at "+it.s.t+" "+smtInt(int64(k))+"))", types.Int32, 0, 127)
	return tuple{true, k, c}
}

func (m *machine) rangeIter(x value, t types.Type) iter {
	switch x := x.(type) {
	case *mapV:
		it := &mapIter{}
		if x != nil {
			it.ents = append(it.ents, x.entries...)
			m.permute(it)
		}
		return it
	case string:
		return &stringIter{s: x}
	case *symv:
		n := m.concretize(mkInt("(str.len "+x.t+")", types.Int, 0, ivMax), "string length")
		return &symStringIter{m: m, s: x, n: int(n)}
	}
	panic(engineErr(fmt.Sprintf("cannot range over %T", x)))
}

// permute applies the configured map iteration order exploration.
func (m *machine) permute(it *mapIter) {
	n := len(it.ents)
	if n < 2 || m.mapOrder == 0 {
		return
	}
	switch m.mapOrder {
	case 1:
		if m.chooseN("maprev", 2, func(int) string { return "true" }) == 1 {
			for i, j := 0, n-1; i < j; i, j = i+1, j-1 {
				it.ents[i], it.ents[j] = it.ents[j], it.ents[i]
			}
		}
	case 2:
		if n > 4 {
			// rotations only beyond 4 entries
			r := m.chooseN("maprot", n, func(int) string { return "true" })
			rot := append(append([]*mapEntry{}, it.ents[r:]...), it.ents[:r]...)
			copy(it.ents, rot)
			return
		}
		f := 1
		for i := 2; i <= n; i++ {
			f *= i
		}
		p := m.chooseN("mapperm", f, func(int) string { return "true" })
		// p-th permutation in lexicographic order (factorial number system)
		src := append([]*mapEntry{}, it.ents...)
		out := it.ents[:0]
		for k := n; k >= 1; k-- {
			f /= k
			idx := p / f
			p %= f
			out = append(out, src[idx])
			src = append(src[:idx], src[idx+1:]...)
		}
	}
}
