package gosym

// The harness runtime API (package .../pkg/zzverif), intercepted by name.

import (
	"fmt"
	"go/types"
	"sort"
	"strconv"
	"strings"
)

type intrinsic func(fr *frame, args []value) value

var zzAPI = map[string]intrinsic{}

func init() {
	base := map[string]intrinsic{
		"Int":         zzInt,
		"IntRange":    zzIntRange,
		"Bool":        zzBool,
		"Str":         zzStr,
		"StrIn":       zzStrIn,
		"OneOf":       zzOneOf,
		"Pick":        zzPick,
		"Len":         zzLen,
		"Float":       zzFloat,
		"Assume":      zzAssume,
		"Assert":      zzAssert,
		"Class":       zzClass,
		"Reach":       zzReach,
		"ObserveInt":  zzObserve,
		"ObserveStr":  zzObserve,
		"ObserveBool": zzObserve,
		"ObserveStrs": zzObserve,
		"ObserveInts": zzObserve,
		"Param":       zzParam,
		"Setenv": func(fr *frame, args []value) value {
			fr.m.notes["env:"+concStr(args[0], "env key")] = args[1]
			return nil
		},
		"MapOrder":                zzMapOrder,
		"And":                     zzAnd,
		"Or":                      zzOr,
		"Not":                     zzNot,
		"Implies":                 zzImplies,
		"Bind":                    zzBind,
		"IteInt":                  zzIte,
		"IteStr":                  zzIte,
		"Go":                      zzGo,
		"Yield":                   zzYield,
		"Count":                   zzCount,
		"CountGet":                zzCountGet,
		"StubCalls":               zzStubCalls,
		"Ticks":                   zzTicks,
		"TicksLeft":               func(fr *frame, args []value) value { return fr.m.tickBudget },
		"AllowMainBlock":          zzAllowMainBlock,
		"BlockForever":            zzBlockForever,
		"WaitUntil":               zzWaitUntil,
		"LastDoneCheckSawClosed":  zzLastDoneSawClosed,
		"SleptSinceLastDoneCheck": func(fr *frame, args []value) value { return fr.m.cur.sleptSinceDone },
		"ThreadID":                zzThreadID,
		"Symbolic":                func(fr *frame, args []value) value { return true },
		"Concretize":              zzConcretize,
		"ConcretizeStr":           zzConcretizeStr,
	}
	for k, v := range base {
		zzAPI[k] = v
	}
}

func concStr(v value, what string) string {
	s, ok := v.(string)
	if !ok {
		panic(engineErr(what + " must be a concrete string"))
	}
	return s
}

func concI(v value, what string) int {
	if isSym(v) {
		panic(engineErr(what + " must be concrete"))
	}
	return int(asInt64(v))
}

func zzInt(fr *frame, args []value) value {
	m := fr.m
	tag := concStr(args[0], "tag")
	if m.concreteMode {
		return int(m.concInt64(tag))
	}
	n := m.fresh(tag, sInt)
	m.assume("(and (>= " + n + " (- 9223372036854775808)) (<= " + n + " 9223372036854775807))")
	m.bounds[tag] = "int64"
	return mkInt(n, types.Int, ivMin, ivMax)
}

func zzIntRange(fr *frame, args []value) value {
	m := fr.m
	tag := concStr(args[0], "tag")
	lo, hi := concI(args[1], "lo"), concI(args[2], "hi")
	if m.concreteMode {
		return int(m.concInt64(tag))
	}
	n := m.fresh(tag, sInt)
	m.assume("(and (>= " + n + " " + smtInt(int64(lo)) + ") (<= " + n + " " + smtInt(int64(hi)) + "))")
	m.bounds[tag] = fmt.Sprintf("[%d,%d]", lo, hi)
	return mkInt(n, types.Int, int64(lo), int64(hi))
}

func zzBool(fr *frame, args []value) value {
	m := fr.m
	tag := concStr(args[0], "tag")
	if m.concreteMode {
		return m.nextConcrete(tag).Value == "true"
	}
	n := m.fresh(tag, sBool)
	m.bounds[tag] = "bool"
	return mkBool(n)
}

// alphabet: characters, with a-z style ranges
func alphabetRe(alpha string) string {
	var parts []string
	rs := []byte(alpha)
	for i := 0; i < len(rs); i++ {
		if i+2 < len(rs) && rs[i+1] == '-' {
			parts = append(parts, "(re.range "+smtStr(string(rs[i]))+" "+smtStr(string(rs[i+2]))+")")
			i += 2
			continue
		}
		parts = append(parts, "(str.to_re "+smtStr(string(rs[i]))+")")
	}
	if len(parts) == 1 {
		return parts[0]
	}
	return "(re.union " + strings.Join(parts, " ") + ")"
}

func (m *machine) freshStr(tag string, maxLen int, alpha string) value {
	if m.concreteMode {
		return m.nextConcrete(tag).Value
	}
	n := m.fresh(tag, sStr)
	m.assume("(<= (str.len " + n + ") " + strconv.Itoa(maxLen) + ")")
	m.assume("(str.in_re " + n + " (re.* " + alphabetRe(alpha) + "))")
	m.bounds[tag] = fmt.Sprintf("string len<=%d over [%s]", maxLen, alpha)
	r := mkStr(n)
	r.lo, r.hi = 0, int64(maxLen)
	return r
}

func zzStr(fr *frame, args []value) value {
	return fr.m.freshStr(concStr(args[0], "tag"), concI(args[1], "maxLen"), " -~")
}

func zzStrIn(fr *frame, args []value) value {
	return fr.m.freshStr(concStr(args[0], "tag"), concI(args[1], "maxLen"), concStr(args[2], "alphabet"))
}

func zzPick(fr *frame, args []value) value {
	m := fr.m
	tag := concStr(args[0], "tag")
	n := concI(args[1], "n")
	if m.concreteMode {
		return int(m.concInt64(tag))
	}
	v := m.fresh(tag, sInt)
	m.assume("(and (>= " + v + " 0) (< " + v + " " + strconv.Itoa(n) + "))")
	m.bounds[tag] = fmt.Sprintf("index [0,%d)", n)
	r := mkInt(v, types.Int, 0, int64(n-1))
	if n <= 64 {
		opts := make([]value, n)
		for i := range opts {
			opts[i] = i
		}
		r.tbl = newChoice(v, opts)
	}
	return r
}

func zzOneOf(fr *frame, args []value) value {
	m := fr.m
	tag := concStr(args[0], "tag")
	vals := args[1].([]value)
	if len(vals) == 0 {
		panic(engineErr("OneOf without values"))
	}
	if m.concreteMode {
		return vals[m.concInt64(tag)]
	}
	v := m.fresh(tag, sInt)
	m.assume("(and (>= " + v + " 0) (< " + v + " " + strconv.Itoa(len(vals)) + "))")
	var names []string
	t := termOf(vals[len(vals)-1])
	maxL := int64(0)
	for i := len(vals) - 1; i >= 0; i-- {
		s := concStr(vals[i], "OneOf value")
		names = append([]string{s}, names...)
		if int64(len(s)) > maxL {
			maxL = int64(len(s))
		}
		if i < len(vals)-1 {
			t = "(ite (= " + v + " " + strconv.Itoa(i) + ") " + smtStr(s) + " " + t + ")"
		}
	}
	m.bounds[tag] = fmt.Sprintf("one of %q", names)
	r := mkStr(t)
	r.lo, r.hi = 0, maxL
	r.tbl = newChoice(v, append([]value{}, vals...))
	return r
}

func zzFloat(fr *frame, args []value) value {
	m := fr.m
	tag := concStr(args[0], "tag")
	vals := args[1].([]value)
	if m.concreteMode {
		return vals[m.concInt64(tag)]
	}
	v := m.fresh(tag, sInt)
	m.assume("(and (>= " + v + " 0) (< " + v + " " + strconv.Itoa(len(vals)) + "))")
	t := termOf(vals[len(vals)-1])
	var names []string
	for i := len(vals) - 1; i >= 0; i-- {
		names = append([]string{fmt.Sprint(vals[i])}, names...)
		if i < len(vals)-1 {
			t = "(ite (= " + v + " " + strconv.Itoa(i) + ") " + termOf(vals[i]) + " " + t + ")"
		}
	}
	m.bounds[tag] = "one of " + strings.Join(names, ",")
	r := mkReal(t, types.Float64)
	r.tbl = newChoice(v, append([]value{}, vals...))
	return r
}

func zzLen(fr *frame, args []value) value {
	m := fr.m
	tag := concStr(args[0], "tag")
	lo, hi := concI(args[1], "lo"), concI(args[2], "hi")
	if m.concreteMode {
		return int(m.concInt64(tag))
	}
	n := m.fresh(tag, sInt)
	m.assume("(and (>= " + n + " " + smtInt(int64(lo)) + ") (<= " + n + " " + smtInt(int64(hi)) + "))")
	m.bounds[tag] = fmt.Sprintf("size [%d,%d] (each value explored)", lo, hi)
	return int(m.concretize(mkInt(n, types.Int, int64(lo), int64(hi)), tag))
}

func zzConcretize(fr *frame, args []value) value {
	return int(fr.m.concInt(args[0], "Concretize"))
}

func zzConcretizeStr(fr *frame, args []value) value {
	return fr.m.concretizeStr(args[0])
}

func zzAssume(fr *frame, args []value) value {
	m := fr.m
	c, isConc, term := boolVal(args[0])
	if isConc {
		if !c {
			panic(pathEnd{"infeasible", "assume(false)"})
		}
		return nil
	}
	if m.replaying() {
		d := m.nextPrefix("assume")
		m.recordDecision(d)
		m.assume(term)
		return nil
	}
	r := m.sol.CheckWith(term)
	if r == "unsat" {
		panic(pathEnd{"infeasible", "assumption unsatisfiable"})
	}
	if r == "unknown" {
		m.inconclusive("INCONCLUSIVE solver unknown on assumption" + m.where())
	}
	m.recordDecision(decision{Kind: "assume", Choice: 1})
	m.assume(term)
	return nil
}

func zzAssert(fr *frame, args []value) value {
	fr.m.obligation(args[0], concStr(args[1], "assert tag"))
	return nil
}

func zzClass(fr *frame, args []value) value {
	_, _, term := boolVal(args[1])
	fr.m.classes[concStr(args[0], "class name")] = term
	return nil
}

func zzReach(fr *frame, args []value) value {
	fr.m.reached[concStr(args[0], "reach tag")] = true
	return nil
}

func zzParam(fr *frame, args []value) value {
	name := concStr(args[0], "param name")
	if v, ok := fr.m.cfg.Params[name]; ok {
		fr.m.bounds["param:"+name] = strconv.Itoa(v)
		return v
	}
	d := concI(args[1], "param default")
	fr.m.bounds["param:"+name] = strconv.Itoa(d)
	return d
}

func zzMapOrder(fr *frame, args []value) value {
	fr.m.mapOrder = concI(args[0], "map order mode")
	if fr.m.mapOrder > 0 {
		fr.m.bounds["maporder"] = [...]string{"insertion", "insertion+reverse", "all permutations (<=4 entries, rotations above)"}[fr.m.mapOrder]
	}
	return nil
}

func zzAnd(fr *frame, args []value) value {
	_, _, a := boolVal(args[0])
	_, _, b := boolVal(args[1])
	return mkBoolV(tAnd(a, b))
}

func zzOr(fr *frame, args []value) value {
	_, _, a := boolVal(args[0])
	_, _, b := boolVal(args[1])
	return mkBoolV(tOr(a, b))
}

func zzNot(fr *frame, args []value) value {
	_, _, a := boolVal(args[0])
	return mkBoolV(tNot(a))
}

// Bind names a boolean term: a fresh constant defined equal to it (keeps
// shared sub-formulas from being duplicated in later terms).
func zzBind(fr *frame, args []value) value {
	m := fr.m
	_, isConc, term := boolVal(args[0])
	if isConc || len(term) < 64 {
		return args[0]
	}
	n := m.freshAux("bind", sBool)
	m.assume("(= " + n + " " + term + ")")
	return mkBool(n)
}

func zzImplies(fr *frame, args []value) value {
	_, _, a := boolVal(args[0])
	_, _, b := boolVal(args[1])
	return mkBoolV(tOr(tNot(a), b))
}

func zzIte(fr *frame, args []value) value {
	c, isConc, term := boolVal(args[0])
	if isConc {
		if c {
			return args[1]
		}
		return args[2]
	}
	t := "(ite " + term + " " + termOf(args[1]) + " " + termOf(args[2]) + ")"
	if _, ok := args[1].(string); ok || (isSym(args[1]) && args[1].(*symv).s == sStr) {
		r := mkStr(t)
		_, h1 := strLenBounds(args[1])
		_, h2 := strLenBounds(args[2])
		r.lo, r.hi = 0, max64(h1, h2)
		return r
	}
	l1, h1 := ivOf(args[1])
	l2, h2 := ivOf(args[2])
	return mkInt(t, types.Int, min64(l1, l2), max64(h1, h2))
}

func zzGo(fr *frame, args []value) value {
	fr.m.spawn(concStr(args[0], "thread name"), args[1], nil)
	return nil
}

func zzYield(fr *frame, args []value) value {
	fr.m.schedPoint("yield")
	return nil
}

func zzCount(fr *frame, args []value) value {
	fr.m.counters[concStr(args[0], "counter")]++
	return nil
}

func zzCountGet(fr *frame, args []value) value {
	return fr.m.counters[concStr(args[0], "counter")]
}

func zzStubCalls(fr *frame, args []value) value {
	name := concStr(args[0], "stub name")
	n := 0
	for k, v := range fr.m.stubCalls {
		if strings.HasSuffix(k, name) {
			n += v
		}
	}
	return n
}

func zzTicks(fr *frame, args []value) value {
	fr.m.tickBudget = concI(args[0], "ticks")
	fr.m.bounds["ticker deliveries"] = strconv.Itoa(fr.m.tickBudget)
	return nil
}

func zzAllowMainBlock(fr *frame, args []value) value {
	fr.m.notes["allow_main_block"] = true
	return nil
}

func zzBlockForever(fr *frame, args []value) value {
	fr.m.block("BlockForever", func() bool { return false })
	return nil
}

// WaitUntil blocks the calling thread until the (side-effect free, lock free)
// predicate holds.
func zzWaitUntil(fr *frame, args []value) value {
	m := fr.m
	pred := args[0]
	m.schedPoint("waituntil")
	m.block("WaitUntil", func() bool {
		switch r := call(m, nil, 0, pred, nil).(type) {
		case bool:
			return r
		case *symv:
			return m.branch(r.t)
		}
		return false
	})
	return nil
}

func zzLastDoneSawClosed(fr *frame, args []value) value {
	return fr.m.lastDoneSawClosed[fr.m.cur.id]
}

func zzThreadID(fr *frame, args []value) value {
	return fr.m.cur.id
}

// Observe*: record a value for translator validation.
func zzObserve(fr *frame, args []value) value {
	m := fr.m
	tag := concStr(args[0], "observe tag")
	o := obsRec{tag: tag}
	switch v := args[1].(type) {
	case []value:
		o.shape = "slice"
		o.leaves = append(o.leaves, v...)
	default:
		o.shape = "scalar"
		o.leaves = []value{v}
	}
	for _, l := range o.leaves {
		o.terms = append(o.terms, termOf(l))
		switch l := l.(type) {
		case *symv:
			o.sorts = append(o.sorts, l.s)
		case string:
			o.sorts = append(o.sorts, sStr)
		case bool:
			o.sorts = append(o.sorts, sBool)
		default:
			o.sorts = append(o.sorts, sInt)
		}
	}
	parts := make([]string, len(o.leaves))
	conc := true
	for i, l := range o.leaves {
		switch l := l.(type) {
		case *symv:
			conc = false
			parts[i] = "«" + l.t + "»"
		case string:
			parts[i] = strconv.Quote(l)
		case bool:
			parts[i] = strconv.FormatBool(l)
		default:
			parts[i] = fmt.Sprint(l)
		}
	}
	_ = conc
	o.text = o.render(parts)
	m.observed = append(m.observed, o)
	return nil
}

func (o obsRec) render(parts []string) string {
	if o.shape == "scalar" {
		return parts[0]
	}
	return "[" + strings.Join(parts, " ") + "]"
}

func renderModelValue(s smtSort, raw string) string {
	switch s {
	case sStr:
		if v, ok := parseSmtString(raw); ok {
			return strconv.Quote(v)
		}
	case sInt:
		if n, ok := parseSmtInt(raw); ok {
			return strconv.FormatInt(n, 10)
		}
	}
	return raw
}

// concretizeStr forks over the feasible values of a symbolic string (bounded).
func (m *machine) concretizeStr(v value) string {
	sv, ok := v.(*symv)
	if !ok {
		return v.(string)
	}
	const maxVals = 48
	if m.replaying() {
		d := m.nextPrefix("sval")
		m.recordDecision(d)
		s := d.SOpts[d.Choice]
		m.assume("(= " + sv.t + " " + smtStr(s) + ")")
		return s
	}
	var vals []string
	m.sol.Push()
	for {
		r := m.sol.Check()
		if r == "unsat" {
			break
		}
		if r == "unknown" {
			m.sol.Pop()
			m.inconclusive("INCONCLUSIVE solver unknown while concretising a string" + m.where())
			panic(pathEnd{"abort", "unknown"})
		}
		vs, err := m.sol.GetValues([]string{sv.t})
		if err != nil {
			m.sol.Pop()
			panic(engineErr(err.Error()))
		}
		s, ok := parseSmtString(vs[0])
		if !ok {
			m.sol.Pop()
			panic(engineErr("concretizeStr: cannot parse " + vs[0]))
		}
		vals = append(vals, s)
		if len(vals) > maxVals {
			m.sol.Pop()
			panic(pathEnd{"limit", fmt.Sprintf("symbolic string has more than %d feasible values%s", maxVals, m.where())})
		}
		m.sol.Assert("(not (= " + sv.t + " " + smtStr(s) + "))")
	}
	m.sol.Pop()
	if len(vals) == 0 {
		panic(pathEnd{"infeasible", "concretizeStr: no value"})
	}
	sort.Strings(vals)
	for j := 1; j < len(vals); j++ {
		m.altWith(decision{Kind: "sval", Choice: j, SOpts: vals})
	}
	m.recordDecision(decision{Kind: "sval", Choice: 0, SOpts: vals})
	m.assume("(= " + sv.t + " " + smtStr(vals[0]) + ")")
	return vals[0]
}
