package kubeeventsmanager

import (
	"testing"

	"k8s.io/apimachinery/pkg/apis/meta/v1/unstructured"

	"github.com/flant/shell-operator/pkg/filter/jq"
)

func TestReproC08(t *testing.T) {
	mk := func(v string) *unstructured.Unstructured {
		return &unstructured.Unstructured{Object: map[string]any{"apiVersion": "v1", "kind": "Pod",
			"metadata": map[string]any{"name": "p", "namespace": "ns"}, "v": v}}
	}
	a, _ := applyFilter(".v", jq.NewFilter(), nil, mk("x"))
	b, _ := applyFilter(".v", jq.NewFilter(), nil, mk("y"))
	if a.Metadata.Checksum == b.Metadata.Checksum {
		t.Fatalf("projection .v changed (x -> y) but checksum did not: %s", a.Metadata.Checksum)
	}
}
