package controller

import (
	"testing"

	regv1 "k8s.io/api/admissionregistration/v1"

	htypes "github.com/flant/shell-operator/pkg/hook/types"
	"github.com/flant/shell-operator/pkg/webhook/admission"
)

func TestReproC14(t *testing.T) {
	mk := func(name string) htypes.ValidatingConfig {
		vc := htypes.ValidatingConfig{Webhook: &admission.ValidatingWebhookConfig{ValidatingWebhook: &regv1.ValidatingWebhook{Name: name}}}
		vc.BindingName = name
		vc.Webhook.UpdateIds("", name)
		return vc
	}
	c := NewValidatingBindingsController()
	m := admission.NewWebhookManager(nil)
	m.Settings = &admission.WebhookSettings{}
	c.WithWebhookManager(m)
	c.WithValidatingBindings([]htypes.ValidatingConfig{mk("myHook"), mk("my-hook")})
	c.EnableValidatingBindings()
	if len(c.AdmissionLinks) != 2 {
		t.Fatalf("two bindings registered, %d links kept", len(c.AdmissionLinks))
	}
}
