package vault

import (
	"testing"

	"github.com/prometheus/client_golang/prometheus"

	"github.com/flant/shell-operator/pkg/metric"
)

func TestReproC16(t *testing.T) {
	v := NewGroupedVault(func(n string) string { return n })
	v.SetRegisterer(prometheus.NewRegistry())
	v.GaugeSet("g1", "m", 1, map[string]string{"l": "a"})
	v.GaugeSet("g2", "m", 2, map[string]string{"l": "a"})
	n := 0
	for _, c := range v.collectors {
		ch := make(chan prometheus.Metric, 10)
		c.Collect(ch)
		n += len(ch)
	}
	if n != 2 {
		t.Errorf("two groups reported series m{l=a}; stored %d", n)
	}
	v.ExpireGroupMetrics("g1")
	n = 0
	for _, c := range v.collectors {
		ch := make(chan prometheus.Metric, 10)
		c.Collect(ch)
		n += len(ch)
	}
	if n != 1 {
		t.Errorf("after expiring g1 the series of g2 must remain; stored %d", n)
	}
	_ = metric.ConstCounterCollector{}
}
