package executor

// C12: "a non-zero exit is a failure".  RunAndLogLines decides between success
// and failure from what os/exec reports about the ended process: it must return
// an error unless the process ran and exited with status 0 - also when the
// process was killed by a signal (exit code -1) or wrote nothing to stderr.
//
// Real code: RunAndLogLines (the decision, the stderr message, the usage
// record).  The process itself is outside: in the engine exec.Cmd.Run and the
// os.ProcessState accessors are stubs that report a solver-chosen way of ending
// (started or not, exit status 0..n, killed by a signal, stderr text or none);
// natively the same endings are produced by real /bin/sh processes.

import (
	"errors"
	"os"
	"os/exec"
	"strconv"
	"time"

	"github.com/deckhouse/deckhouse/pkg/log"

	zz "github.com/flant/shell-operator/pkg/zzverif"
)

var (
	vhEnding int  // 0 exit 0, 1 exit 3, 2 killed by a signal, 3 cannot be started
	vhStderr bool // the process writes to stderr before it ends
)

//verif:enginestub os/exec.Command
func vhCommand(name string, arg ...string) *exec.Cmd {
	return &exec.Cmd{Path: name, Args: append([]string{name}, arg...)}
}

//verif:enginestub (*os/exec.Cmd).Run
func vhCmdRun(c *exec.Cmd) error {
	if vhEnding == 3 {
		return errors.New("fork/exec: no such file or directory")
	}
	if vhStderr && c.Stderr != nil {
		c.Stderr.Write([]byte("oops\n"))
	}
	c.ProcessState = &os.ProcessState{}
	if vhEnding == 0 {
		return nil
	}
	return &exec.ExitError{ProcessState: c.ProcessState}
}

//verif:enginestub (*os.ProcessState).ExitCode
func vhExitCode(p *os.ProcessState) int {
	switch vhEnding {
	case 0:
		return 0
	case 1:
		return 3
	}
	return -1
}

//verif:enginestub (*os.ProcessState).SystemTime
func vhSystemTime(p *os.ProcessState) time.Duration { return 0 }

//verif:enginestub (*os.ProcessState).UserTime
func vhUserTime(p *os.ProcessState) time.Duration { return 0 }

//verif:enginestub (*os.ProcessState).SysUsage
func vhSysUsage(p *os.ProcessState) any { return nil }

//verif:enginestub (*os/exec.ExitError).Error
func vhExitErrorText(e *exec.ExitError) string { return "exit status " + strconv.Itoa(e.ProcessState.ExitCode()) }

func VH_C12_executor() {
	vhEnding = zz.Len("process_ending", 0, 3)
	vhStderr = zz.Bool("writes_to_stderr")
	script := ""
	if vhStderr {
		script = "echo oops >&2; "
	}
	entry := "/bin/sh"
	switch vhEnding {
	case 0:
		script += "exit 0"
	case 1:
		script += "exit 3"
	case 2:
		script += "kill -KILL $$"
	case 3:
		entry = "/nonexistent/zz-verif-no-such-binary"
	}
	ex := NewExecutor("", entry, []string{"-c", script}, nil).WithLogger(log.NewNop())
	usage, err := ex.RunAndLogLines(map[string]string{"hook": "h"})
	if vhEnding == 0 {
		zz.Assert(err == nil, "zero_exit_is_a_success")
		zz.Assert(usage != nil, "usage_is_reported_for_a_finished_process")
	} else {
		zz.Assert(err != nil, "anything_but_a_zero_exit_is_a_failure")
		zz.Assert(usage == nil, "no_usage_for_a_failed_run")
	}
	zz.Reach("end")
}
