package executor

// Guarded stubs of the process boundary (os/exec): the hook process is the
// harness callback VRunFn, which receives directory, path and environment.

import (
	"os/exec"

	"github.com/deckhouse/deckhouse/pkg/log"
)

var VRunFn func(dir, path string, args []string, env []string) (*CmdUsage, error)

func vExecStubActive() bool { return VRunFn != nil }

//verif:stub $R/pkg/executor.NewExecutor if vExecStubActive
func vNewExecutor(dir string, entrypoint string, args []string, envs []string) *Executor {
	return &Executor{cmd: &exec.Cmd{Path: entrypoint, Args: append([]string{entrypoint}, args...), Env: envs, Dir: dir}, proxyJsonKey: "proxyJsonLog", logger: log.NewNop()}
}

//verif:stub (*$R/pkg/executor.Executor).RunAndLogLines if vExecStubActive
func vRunAndLogLines(e *Executor, logLabels map[string]string) (*CmdUsage, error) {
	return VRunFn(e.cmd.Dir, e.cmd.Path, e.cmd.Args[1:], e.cmd.Env)
}
