package jq

// Engine-side cut of gojq (a third-party evaluator the engine cannot encode):
// Parse/Run are replaced by a mini evaluator for the handful of expression
// shapes the harnesses use; in native replay the real gojq evaluates the same
// expressions, and translator validation compares the two.

import (
	"errors"

	"github.com/itchyny/gojq"
)

var vhQueries = map[*gojq.Query]string{}

//verif:enginestub github.com/itchyny/gojq.Parse
func vhParse(src string) (*gojq.Query, error) {
	q := &gojq.Query{}
	vhQueries[q] = src
	return q, nil
}

type vhIter struct {
	vals []any
	i    int
}

func (it *vhIter) Next() (any, bool) {
	if it.i >= len(it.vals) {
		return nil, false
	}
	v := it.vals[it.i]
	it.i++
	return v, true
}

//verif:enginestub (*github.com/itchyny/gojq.Query).Run
func vhRun(q *gojq.Query, v any) gojq.Iter {
	data := v.(map[string]any)
	switch vhQueries[q] {
	case ".v":
		return &vhIter{vals: []any{data["v"]}}
	case "{a: .v}":
		return &vhIter{vals: []any{map[string]any{"a": data["v"]}}}
	case "{a: .kind}":
		return &vhIter{vals: []any{map[string]any{"a": data["kind"]}}}
	case `.v = "patched"`:
		out := map[string]any{}
		for k, x := range data {
			out[k] = x
		}
		out["v"] = "patched"
		return &vhIter{vals: []any{out}}
	case ".v, .w":
		return &vhIter{vals: []any{data["v"], data["w"]}}
	case "error(\"boom\")":
		return &vhIter{vals: []any{errors.New("boom")}}
	}
	panic("jq expression outside the modelled fragment: " + vhQueries[q])
}

// deepCopy is a JSON round trip (number normalisation); inputs built by the
// harnesses are JSON-normal, so it is the identity there.
//
//verif:enginestub $R/pkg/filter/jq.deepCopy
func vhDeepCopy(input map[string]any) map[string]any { return input }
