package bindingcontext

// Guarded stub of the JSON rendering of a context list (encoding/json): the
// harness renders the bindings' names so that it can tell which contexts the
// file holds.
var VJsonFn func(b BindingContextList) ([]byte, error)

func vJsonActive() bool { return VJsonFn != nil }

//verif:stub ($R/pkg/hook/binding_context.BindingContextList).Json if vJsonActive
func vJson(b BindingContextList) ([]byte, error) { return VJsonFn(b) }
