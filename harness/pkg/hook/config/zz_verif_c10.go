package config

// C10 (typed half): a decoded v1 configuration is either rejected or converted
// into exactly the declared bindings, in order, with the documented defaults.

import (
	"errors"
	"strconv"

	v1 "k8s.io/api/admissionregistration/v1"
	metav1 "k8s.io/apimachinery/pkg/apis/meta/v1"

	htypes "github.com/flant/shell-operator/pkg/hook/types"
	kemtypes "github.com/flant/shell-operator/pkg/kube_events_manager/types"
	"github.com/flant/shell-operator/pkg/webhook/conversion"
	"github.com/flant/shell-operator/pkg/webhook/validating/validation"
	zz "github.com/flant/shell-operator/pkg/zzverif"
)

// one include drawn from {none, kA, kubernetes (the default name), missing}
func vhInclude(tag string) []string {
	if !zz.Bool(tag + "_set") {
		return nil
	}
	return []string{zz.OneOf(tag, "kA", "kubernetes", "missing")}
}

// vhIncludeBad: the include is unknown or ambiguous among the effective names
func vhIncludeBad(names []string, includes []string) bool {
	bad := false
	for _, inc := range includes {
		n := 0
		for _, nm := range names {
			n += zz.IteInt(nm == inc, 1, 0)
		}
		bad = zz.Or(bad, n != 1)
	}
	return bad
}

func vhOrDefault(s, def string) string { return zz.IteStr(s == "", def, s) }

func vhHasStr(l []string, s string) bool {
	has := false
	for _, x := range l {
		has = zz.Or(has, x == s)
	}
	return has
}

func vhValidatorAccepts() {
	validation.VValidateFn = func(e *v1.ValidatingWebhookConfiguration) error { return nil }
}

// VH_C10_kubernetes: kubernetes bindings (names, queues, groups, flags, event
// types, includes) plus one schedule that may share the group.
func VH_C10_kubernetes() {
	vhValidatorAccepts()
	cv1 := &HookConfigV1{ConfigVersion: "v1"}
	nk := zz.Len("nkube", 0, zz.Param("maxkube", 2))
	names := make([]string, nk)
	for i := 0; i < nk; i++ {
		si := strconv.Itoa(i)
		k := OnKubernetesEventConfigV1{Kind: "Pod"}
		k.Name = zz.OneOf("kname"+si, "", "kA", "kB")
		k.Group = zz.OneOf("kgroup"+si, "", "g1")
		k.AllowFailure = zz.Bool("kallow" + si)
		// the per-binding option flags are independent of the other bindings: they
		// are varied on the first binding only unless the tier asks for all
		if i == 0 || zz.Param("all_flags", 0) == 1 {
			k.Queue = zz.OneOf("kqueue"+si, "", "q1")
			k.ExecuteHookOnSynchronization = zz.OneOf("kexec"+si, "", "true", "false")
			k.KeepFullObjectsInMemory = zz.OneOf("kkeep"+si, "", "true", "false")
			switch zz.Len("kon_event"+si, 0, 2) {
			case 1:
				k.ExecuteHookOnEvents = []kemtypes.WatchEventType{kemtypes.WatchEventAdded}
			case 2:
				// declared, but empty: the hook is never executed on events
				k.ExecuteHookOnEvents = []kemtypes.WatchEventType{}
			}
			if zz.Bool("kwatch_event" + si) {
				k.WatchEventTypes = []kemtypes.WatchEventType{kemtypes.WatchEventDeleted}
			}
		}
		k.IncludeSnapshotsFrom = vhInclude("kincl" + si)
		cv1.OnKubernetesEvent = append(cv1.OnKubernetesEvent, k)
		names[i] = vhOrDefault(k.Name, "kubernetes")
	}
	withSched := zz.Bool("with_schedule")
	if withSched {
		cv1.Schedule = []ScheduleConfigV1{{Crontab: "* * * * *", Group: zz.OneOf("sgroup", "", "g1"), IncludeSnapshotsFrom: vhInclude("sincl")}}
	}
	wantErr := false
	for i := 0; i < nk; i++ {
		wantErr = zz.Or(wantErr, vhIncludeBad(names, cv1.OnKubernetesEvent[i].IncludeSnapshotsFrom))
	}
	if withSched {
		wantErr = zz.Or(wantErr, vhIncludeBad(names, cv1.Schedule[0].IncludeSnapshotsFrom))
	}

	c := &HookConfig{Version: "v1", V1: cv1}
	err := cv1.ConvertAndCheck(c)
	zz.Assert(zz.Implies(wantErr, err != nil), "invalid_config_is_rejected")
	zz.Assert(zz.Implies(zz.Not(wantErr), err == nil), "valid_config_loads")
	if err != nil {
		zz.Reach("end")
		return
	}
	zz.Assert(len(c.OnKubernetesEvents) == nk && len(c.Schedules) == len(cv1.Schedule), "declared_bindings_only")
	zz.Assert(c.OnStartup == nil && c.Settings == nil && len(c.KubernetesValidating) == 0 && len(c.KubernetesMutating) == 0 && len(c.KubernetesConversion) == 0, "declared_bindings_only")
	for i := 0; i < nk && i < len(c.OnKubernetesEvents); i++ {
		in, out := cv1.OnKubernetesEvent[i], c.OnKubernetesEvents[i]
		zz.Assert(out.BindingName == names[i], "kubernetes_binding_name_or_default")
		zz.Assert(out.Queue == vhOrDefault(in.Queue, "main"), "queue_defaults_to_main")
		zz.Assert(out.AllowFailure == in.AllowFailure, "allow_failure_kept")
		zz.Assert(out.ExecuteHookOnSynchronization == (in.ExecuteHookOnSynchronization != "false"), "execute_on_synchronization_default_true")
		zz.Assert(out.KeepFullObjectsInMemory == (in.KeepFullObjectsInMemory != "false"), "keep_full_objects_default_true")
		zz.Assert(out.Monitor.KeepFullObjectsInMemory == out.KeepFullObjectsInMemory, "monitor_keeps_full_objects_like_binding")
		zz.Assert(out.Group == in.Group, "group_kept")
		switch {
		case in.ExecuteHookOnEvents != nil:
			zz.Assert(len(out.Monitor.EventTypes) == len(in.ExecuteHookOnEvents), "execute_hook_on_event_has_priority")
			if len(in.ExecuteHookOnEvents) == 1 && len(out.Monitor.EventTypes) == 1 {
				zz.Assert(out.Monitor.EventTypes[0] == kemtypes.WatchEventAdded, "execute_hook_on_event_has_priority")
			}
		case in.WatchEventTypes != nil:
			zz.Assert(len(out.Monitor.EventTypes) == 1 && out.Monitor.EventTypes[0] == kemtypes.WatchEventDeleted, "watch_event_used")
		default:
			zz.Assert(len(out.Monitor.EventTypes) == 3, "all_three_events_by_default")
			if len(out.Monitor.EventTypes) == 3 {
				zz.Assert(out.Monitor.EventTypes[0] != out.Monitor.EventTypes[1] && out.Monitor.EventTypes[1] != out.Monitor.EventTypes[2] && out.Monitor.EventTypes[0] != out.Monitor.EventTypes[2], "all_three_events_by_default")
			}
		}
		zz.Assert(out.Monitor.Kind == "Pod" && out.Monitor.Metadata.MonitorId != "", "monitor_configured")
		for j := 0; j < i; j++ {
			zz.Assert(c.OnKubernetesEvents[j].Monitor.Metadata.MonitorId != out.Monitor.Metadata.MonitorId, "monitor_ids_unique")
		}
		for j := 0; j < nk; j++ {
			zz.Assert(zz.Implies(zz.And(in.Group != "", cv1.OnKubernetesEvent[j].Group == in.Group), vhHasStr(out.IncludeSnapshotsFrom, names[j])), "group_members_get_group_snapshots")
		}
		for _, inc := range in.IncludeSnapshotsFrom {
			zz.Assert(vhHasStr(out.IncludeSnapshotsFrom, inc), "declared_includes_kept")
		}
		// nothing but declared includes and group members
		for _, got := range out.IncludeSnapshotsFrom {
			ok := vhHasStr(in.IncludeSnapshotsFrom, got)
			for j := 0; j < nk; j++ {
				ok = zz.Or(ok, zz.And(zz.And(in.Group != "", cv1.OnKubernetesEvent[j].Group == in.Group), names[j] == got))
			}
			zz.Assert(ok, "no_foreign_snapshots")
		}
	}
	if withSched && len(c.Schedules) == 1 {
		in, out := cv1.Schedule[0], c.Schedules[0]
		zz.Assert(out.BindingName == "schedule" && out.Queue == "main" && !out.AllowFailure, "schedule_defaults")
		for j := 0; j < nk; j++ {
			zz.Assert(zz.Implies(zz.And(in.Group != "", cv1.OnKubernetesEvent[j].Group == in.Group), vhHasStr(out.IncludeSnapshotsFrom, names[j])), "group_members_get_group_snapshots")
		}
	}
	zz.Assert(c.HasBinding(htypes.OnKubernetesEvent) == (nk > 0) && c.HasBinding(htypes.Schedule) == withSched, "has_binding")
	zz.Reach("end")
}

// executionMinInterval spellings and their exact value (whole seconds, sub-second,
// fractional, composite)
var vhIntervalTexts = []string{"3s", "500ms", "1500ms", "1m30s500ms", "0.9s"}
var vhIntervalNanos = []int64{3000000000, 500000000, 1500000000, 90500000000, 900000000}

// VH_C10_others: onStartup, schedules, admission, conversion and settings next
// to one kubernetes binding named kA.
func VH_C10_others() {
	cv1 := &HookConfigV1{ConfigVersion: "v1"}
	cv1.OnKubernetesEvent = []OnKubernetesEventConfigV1{{Name: "kA", Kind: "Pod"}}
	names := []string{"kA"}
	wantErr := false

	startupKind := zz.Len("onstartup_kind", 0, 2)
	switch startupKind {
	case 1:
		cv1.OnStartup = float64(zz.Len("onstartup_order", 1, 2))
	case 2:
		cv1.OnStartup = "10"
		wantErr = true
	}
	ns := zz.Len("nsched", 0, zz.Param("maxsched", 2))
	for i := 0; i < ns; i++ {
		si := strconv.Itoa(i)
		s := ScheduleConfigV1{}
		s.Name = zz.OneOf("sname"+si, "", "sA")
		s.Crontab = zz.ConcretizeStr(zz.OneOf("scrontab"+si, "* * * * *", "*/5 * * * *", "bad crontab"))
		s.Queue = zz.OneOf("squeue"+si, "", "q2")
		s.Group = zz.OneOf("sgroup"+si, "", "g1")
		s.AllowFailure = zz.Bool("sallow" + si)
		s.IncludeSnapshotsFrom = vhInclude("sincl" + si)
		cv1.Schedule = append(cv1.Schedule, s)
		wantErr = zz.Or(wantErr, zz.Or(s.Crontab == "bad crontab", vhIncludeBad(names, s.IncludeSnapshotsFrom)))
	}
	hasValidating := zz.Bool("has_validating")
	if hasValidating {
		a := KubernetesAdmissionConfigV1{Name: "val.example.com", Group: zz.OneOf("vgroup", "", "g1")}
		a.IncludeSnapshotsFrom = vhInclude("vincl")
		cv1.KubernetesValidating = []KubernetesAdmissionConfigV1{a}
		wantErr = zz.Or(wantErr, vhIncludeBad(names, a.IncludeSnapshotsFrom))
	}
	hasMutating := zz.Bool("has_mutating")
	if hasMutating {
		a := KubernetesAdmissionConfigV1{Name: "mut.example.com"}
		a.IncludeSnapshotsFrom = vhInclude("mincl")
		cv1.KubernetesMutating = []KubernetesAdmissionConfigV1{a}
		wantErr = zz.Or(wantErr, vhIncludeBad(names, a.IncludeSnapshotsFrom))
	}
	validatorRejects := zz.Bool("validator_rejects")
	validation.VValidateFn = func(e *v1.ValidatingWebhookConfiguration) error {
		if validatorRejects {
			return errors.New("webhook is invalid")
		}
		return nil
	}
	wantErr = zz.Or(wantErr, validatorRejects)
	hasConversion := zz.Bool("has_conversion")
	if hasConversion {
		cc := KubernetesConversionConfigV1{Name: "conv", CrdName: "crd", Conversions: []conversion.Rule{{FromVersion: "v1", ToVersion: "v2"}}}
		cc.IncludeSnapshotsFrom = vhInclude("cincl")
		cv1.KubernetesConversion = []KubernetesConversionConfigV1{cc}
		wantErr = zz.Or(wantErr, vhIncludeBad(names, cc.IncludeSnapshotsFrom))
	}
	settingsKind := zz.Len("settings_kind", 0, 3)
	ii := 0
	switch settingsKind {
	case 1:
		cv1.Settings = &SettingsV1{ExecutionMinInterval: "3s", ExecutionBurst: "2"}
	case 2:
		cv1.Settings = &SettingsV1{ExecutionMinInterval: "soon", ExecutionBurst: "2"}
		wantErr = true
	case 3:
		cv1.Settings = &SettingsV1{ExecutionMinInterval: "3s", ExecutionBurst: "many"}
		wantErr = true
	}

	c := &HookConfig{Version: "v1", V1: cv1}
	err := cv1.ConvertAndCheck(c)
	zz.Assert(zz.Implies(wantErr, err != nil), "invalid_config_is_rejected")
	zz.Assert(zz.Implies(zz.Not(wantErr), err == nil), "valid_config_loads")
	if err != nil {
		zz.Reach("end")
		return
	}
	zz.Assert((c.OnStartup != nil) == (startupKind == 1), "onstartup_as_declared")
	if c.OnStartup != nil {
		zz.Assert(c.OnStartup.BindingName == "onStartup" && !c.OnStartup.AllowFailure, "onstartup_defaults")
	}
	zz.Assert(len(c.OnKubernetesEvents) == 1 && len(c.Schedules) == ns, "declared_bindings_only")
	zz.Assert(len(c.KubernetesValidating) == vhB2I(hasValidating) && len(c.KubernetesMutating) == vhB2I(hasMutating) && len(c.KubernetesConversion) == vhB2I(hasConversion), "declared_bindings_only")
	zz.Assert((c.Settings != nil) == (settingsKind == 1), "settings_as_declared")
	if c.Settings != nil {
		zz.Assert(int64(c.Settings.ExecutionMinInterval) == vhIntervalNanos[ii] && c.Settings.ExecutionBurst == 2, "settings_values_kept")
	}
	for i := 0; i < ns && i < len(c.Schedules); i++ {
		in, out := cv1.Schedule[i], c.Schedules[i]
		zz.Assert(out.BindingName == vhOrDefault(in.Name, "schedule"), "schedule_binding_name_or_default")
		zz.Assert(out.Queue == vhOrDefault(in.Queue, "main"), "queue_defaults_to_main")
		zz.Assert(out.AllowFailure == in.AllowFailure && out.Group == in.Group, "schedule_fields_kept")
		zz.Assert(out.ScheduleEntry.Crontab == in.Crontab && out.ScheduleEntry.Id != "", "crontab_kept")
		for j := 0; j < i; j++ {
			zz.Assert(c.Schedules[j].ScheduleEntry.Id != out.ScheduleEntry.Id, "schedule_ids_unique")
		}
		for _, inc := range in.IncludeSnapshotsFrom {
			zz.Assert(vhHasStr(out.IncludeSnapshotsFrom, inc), "declared_includes_kept")
		}
	}
	if hasValidating && len(c.KubernetesValidating) == 1 {
		out := c.KubernetesValidating[0]
		zz.Assert(out.BindingName == "val.example.com" && out.Webhook != nil && out.Webhook.ValidatingWebhook.Name == "val.example.com", "validating_binding_kept")
		zz.Assert(*out.Webhook.TimeoutSeconds == 10 && *out.Webhook.SideEffects == v1.SideEffectClassNone && out.Webhook.FailurePolicy != nil, "validating_defaults")
	}
	if hasMutating && len(c.KubernetesMutating) == 1 {
		out := c.KubernetesMutating[0]
		zz.Assert(out.BindingName == "mut.example.com" && *out.Webhook.FailurePolicy == v1.Fail && *out.Webhook.TimeoutSeconds == 10, "mutating_defaults")
	}
	if hasConversion && len(c.KubernetesConversion) == 1 {
		out := c.KubernetesConversion[0]
		zz.Assert(out.BindingName == "conv" && out.Webhook.CrdName == "crd" && len(out.Webhook.Rules) == 1, "conversion_binding_kept")
	}
	zz.Assert(len(c.Bindings()) == vhB2I(c.OnStartup != nil)+1+vhB2I(ns > 0)+vhB2I(hasValidating)+vhB2I(hasMutating)+vhB2I(hasConversion), "bindings_list_matches")
	zz.Reach("end")
}

func vhB2I(b bool) int {
	if b {
		return 1
	}
	return 0
}

// VH_C10_settings: the settings section alone: every spelling of
// executionMinInterval (whole seconds, sub-second, fractional, composite) and of
// executionBurst is carried into the effective configuration with its exact value;
// an unparsable value is an error.
func VH_C10_settings() {
	ii := zz.Len("interval", 0, len(vhIntervalTexts))
	text := "soon"
	if ii < len(vhIntervalTexts) {
		text = vhIntervalTexts[ii]
	}
	bi := zz.Len("burst", 0, 4)
	bursts := []string{"0", "1", "2", "5", "many"}
	cv1 := &HookConfigV1{}
	st, err := cv1.CheckAndConvertSettings(&SettingsV1{ExecutionMinInterval: text, ExecutionBurst: bursts[bi]})
	bad := ii == len(vhIntervalTexts) || bi == 4
	zz.Assert(bad == (err != nil), "unparsable_settings_are_rejected")
	if err == nil {
		zz.Assert(st != nil && int64(st.ExecutionMinInterval) == vhIntervalNanos[ii], "interval_kept_exactly")
		zz.Assert(st != nil && st.ExecutionBurst == []int{0, 1, 2, 5}[bi], "burst_kept_exactly")
	}
	none, err2 := cv1.CheckAndConvertSettings(nil)
	zz.Assert(none == nil && err2 == nil, "no_settings_no_limits")
	zz.Reach("end")
}

// label selector shapes: index -> (selector, valid?)
func vhLabelSelector(i int) (*metav1.LabelSelector, bool) {
	in := metav1.LabelSelectorRequirement{Key: "app", Operator: metav1.LabelSelectorOpIn, Values: []string{"a"}}
	switch i {
	case 1:
		return &metav1.LabelSelector{MatchLabels: map[string]string{"app": "web"}}, true
	case 2:
		return &metav1.LabelSelector{MatchLabels: map[string]string{"app": "not a valid value"}}, false
	case 3:
		return &metav1.LabelSelector{MatchExpressions: []metav1.LabelSelectorRequirement{in}}, true
	case 4:
		return &metav1.LabelSelector{MatchExpressions: []metav1.LabelSelectorRequirement{{Key: "app", Operator: "Bogus"}}}, false
	case 5:
		return &metav1.LabelSelector{MatchExpressions: []metav1.LabelSelectorRequirement{{Key: "app", Operator: metav1.LabelSelectorOpIn}}}, false
	case 6:
		return &metav1.LabelSelector{MatchLabels: map[string]string{"a/b/c": "x"}, MatchExpressions: []metav1.LabelSelectorRequirement{in}}, false
	case 7:
		return &metav1.LabelSelector{}, true
	}
	return nil, true
}

// VH_C10_selectors: a kubernetes binding's selectors - labelSelector,
// namespace.labelSelector, fieldSelector, nameSelector - in valid and invalid
// shapes: the configuration loads exactly when all of them are valid, and the
// selectors arrive unchanged in the monitor configuration.
func VH_C10_selectors() {
	vhValidatorAccepts()
	k := OnKubernetesEventConfigV1{Kind: "Pod", Name: "kA"}
	li := zz.Len("label_selector", 0, 7)
	ls, lok := vhLabelSelector(li)
	k.LabelSelector = ls
	ni := zz.Len("namespace_label_selector", 0, 7)
	ns, nok := vhLabelSelector(ni)
	if ni > 0 {
		k.Namespace = &KubeNamespaceSelectorV1{LabelSelector: ns}
	}
	// namespace.nameSelector may stand alone or beside namespace.labelSelector (the schema
	// allows both): each is carried into the monitor configuration
	nsNames := zz.Bool("namespace_name_selector")
	if nsNames {
		if k.Namespace == nil {
			k.Namespace = &KubeNamespaceSelectorV1{}
		}
		k.Namespace.NameSelector = &kemtypes.NameSelector{MatchNames: []string{"ns-1", "ns-2"}}
	}
	fi := zz.Len("field_selector", 0, 3)
	fok := true
	switch fi {
	case 1:
		k.FieldSelector = &KubeFieldSelectorV1{MatchExpressions: []kemtypes.FieldSelectorRequirement{{Field: "status.phase", Operator: "Equals", Value: "Running"}}}
	case 2:
		k.FieldSelector = &KubeFieldSelectorV1{MatchExpressions: []kemtypes.FieldSelectorRequirement{{Field: "status.phase", Operator: "In", Value: "Running"}}}
		fok = false
	case 3:
		k.FieldSelector = &KubeFieldSelectorV1{MatchExpressions: []kemtypes.FieldSelectorRequirement{{Field: "metadata.name", Operator: "Equals", Value: "x"}}}
	}
	withNames := zz.Bool("name_selector")
	if withNames {
		k.NameSelector = &KubeNameSelectorV1{MatchNames: []string{"x"}}
	}
	cv1 := &HookConfigV1{ConfigVersion: "v1", OnKubernetesEvent: []OnKubernetesEventConfigV1{k}}
	c := &HookConfig{Version: "v1", V1: cv1}
	err := cv1.ConvertAndCheck(c)
	valid := lok && nok && fok && !(withNames && fi == 3)
	zz.Assert(valid || err != nil, "invalid_selector_is_rejected")
	zz.Assert(!valid || err == nil, "valid_selectors_load")
	if err == nil && len(c.OnKubernetesEvents) == 1 {
		m := c.OnKubernetesEvents[0].Monitor
		// the monitor configuration holds a copy with the same content
		zz.Assert((m.LabelSelector != nil) == (ls != nil), "label_selector_carried_unchanged")
		if m.LabelSelector != nil && ls != nil {
			zz.Assert(len(m.LabelSelector.MatchLabels) == len(ls.MatchLabels) && len(m.LabelSelector.MatchExpressions) == len(ls.MatchExpressions), "label_selector_carried_unchanged")
			for k, v := range ls.MatchLabels {
				zz.Assert(m.LabelSelector.MatchLabels[k] == v, "label_selector_carried_unchanged")
			}
		}
		if nsNames {
			gotNames := m.NamespaceSelector != nil && m.NamespaceSelector.NameSelector != nil
			zz.Assert(gotNames, "namespace_name_selector_carried")
			if gotNames {
				mn := m.NamespaceSelector.NameSelector.MatchNames
				zz.Assert(len(mn) == 2 && mn[0] == "ns-1" && mn[1] == "ns-2", "namespace_name_selector_carried")
			}
		} else {
			zz.Assert(m.NamespaceSelector == nil || m.NamespaceSelector.NameSelector == nil, "namespace_name_selector_carried")
		}
		if ni == 0 {
			zz.Assert(m.NamespaceSelector == nil || (nsNames && m.NamespaceSelector.LabelSelector == nil), "namespace_selector_carried_unchanged")
		} else {
			got := m.NamespaceSelector != nil && m.NamespaceSelector.LabelSelector != nil
			zz.Assert(got, "namespace_selector_carried_unchanged")
			if got {
				g := m.NamespaceSelector.LabelSelector
				zz.Assert(len(g.MatchLabels) == len(ns.MatchLabels) && len(g.MatchExpressions) == len(ns.MatchExpressions), "namespace_selector_carried_unchanged")
			}
		}
		zz.Assert((m.FieldSelector != nil) == (fi != 0), "field_selector_carried")
		zz.Assert((m.NameSelector != nil) == withNames, "name_selector_carried")
	}
	zz.Reach("end")
}

// VH_C10_schedules: two schedule bindings that may share their name (every
// unnamed one is called "schedule") and their crontab: each becomes its own
// effective binding, in declared order, with its own queue/group/allowFailure
// and its own schedule id (the id is what the schedule manager and the bindings
// controller key on, so equal ids would merge the two bindings).
func VH_C10_schedules() {
	vhValidatorAccepts()
	cv1 := &HookConfigV1{ConfigVersion: "v1"}
	for i := 0; i < 2; i++ {
		si := strconv.Itoa(i)
		cv1.Schedule = append(cv1.Schedule, ScheduleConfigV1{
			Name:         zz.OneOf("sname"+si, "", "nightly"),
			Crontab:      zz.ConcretizeStr(zz.OneOf("scrontab"+si, "* * * * *", "*/5 * * * *")),
			Queue:        zz.OneOf("squeue"+si, "", "q1", "q2"),
			Group:        zz.OneOf("sgroup"+si, "", "g1"),
			AllowFailure: zz.Bool("sallow" + si),
		})
	}
	c := &HookConfig{Version: "v1", V1: cv1}
	err := cv1.ConvertAndCheck(c)
	zz.Assert(err == nil, "valid_config_loads")
	if err != nil {
		return
	}
	zz.Assert(len(c.Schedules) == 2, "declared_bindings_only")
	if len(c.Schedules) != 2 {
		return
	}
	for i, out := range c.Schedules {
		in := cv1.Schedule[i]
		zz.Assert(out.BindingName == vhOrDefault(in.Name, "schedule"), "schedule_name_default")
		zz.Assert(out.Queue == vhOrDefault(in.Queue, "main"), "schedule_queue_default")
		zz.Assert(out.Group == in.Group && out.AllowFailure == in.AllowFailure, "schedule_settings_carried")
		zz.Assert(out.ScheduleEntry.Crontab == in.Crontab, "schedule_crontab_carried")
		zz.Assert(out.ScheduleEntry.Id != "", "schedule_has_an_id")
	}
	zz.Assert(c.Schedules[0].ScheduleEntry.Id != c.Schedules[1].ScheduleEntry.Id, "each_schedule_binding_has_its_own_id")
	zz.Reach("end")
}

// VH_C10_v0: the legacy (v0) format: up to two onKubernetesEvent bindings with
// their own event lists, names, filters and selectors plus a schedule: each
// binding is converted on its own, in declared order, with the v0 defaults.
func VH_C10_v0() {
	cv0 := &HookConfigV0{}
	nk := zz.Len("nkube", 1, 2)
	evs := [][]string{nil, {"add"}, {"delete"}, {"update", "delete"}, {"add", "update", "delete"}}
	want := [][]kemtypes.WatchEventType{
		{kemtypes.WatchEventAdded, kemtypes.WatchEventModified, kemtypes.WatchEventDeleted},
		{kemtypes.WatchEventAdded},
		{kemtypes.WatchEventDeleted},
		{kemtypes.WatchEventModified, kemtypes.WatchEventDeleted},
		{kemtypes.WatchEventAdded, kemtypes.WatchEventModified, kemtypes.WatchEventDeleted},
	}
	ei := make([]int, nk)
	for i := 0; i < nk; i++ {
		si := strconv.Itoa(i)
		ei[i] = zz.Len("events"+si, 0, len(evs)-1)
		k := OnKubernetesEventConfigV0{Kind: "Pod", EventTypes: evs[ei[i]]}
		k.Name = zz.OneOf("kname"+si, "", "kA")
		k.JqFilter = zz.OneOf("kjq"+si, "", ".spec")
		k.AllowFailure = zz.Bool("kallow" + si)
		if zz.Bool("kobject" + si) {
			k.ObjectName = "obj" + si
		}
		cv0.OnKubernetesEvent = append(cv0.OnKubernetesEvent, k)
	}
	if zz.Bool("with_schedule") {
		cv0.Schedule = []ScheduleConfigV0{{Name: zz.OneOf("sname", "", "s1"), Crontab: "* * * * *", AllowFailure: zz.Bool("sallow")}}
	}
	c := &HookConfig{Version: "v0", V0: cv0}
	err := cv0.ConvertAndCheck(c)
	zz.Assert(err == nil, "valid_config_loads")
	if err != nil {
		return
	}
	zz.Assert(len(c.OnKubernetesEvents) == nk && len(c.Schedules) == len(cv0.Schedule), "declared_bindings_only")
	for i := 0; i < nk && i < len(c.OnKubernetesEvents); i++ {
		in, out := cv0.OnKubernetesEvent[i], c.OnKubernetesEvents[i]
		zz.Assert(out.BindingName == vhOrDefault(in.Name, "onKubernetesEvent"), "v0_binding_name_default")
		zz.Assert(out.AllowFailure == in.AllowFailure, "v0_allow_failure_carried")
		zz.Assert(out.Monitor != nil && out.Monitor.JqFilter == in.JqFilter && out.Monitor.Kind == "Pod", "v0_monitor_fields_carried")
		got := out.Monitor.EventTypes
		w := want[ei[i]]
		// a v0 binding without an event list: the repository documents no default for the
		// legacy format (the code yields an empty list); only declared lists are judged
		if ei[i] != 0 {
			zz.Assert(len(got) == len(w), "v0_event_types_are_the_binding_s_own")
			for j := 0; j < len(got) && j < len(w); j++ {
				zz.Assert(got[j] == w[j], "v0_event_types_are_the_binding_s_own")
			}
		}
		zz.Assert((out.Monitor.NameSelector != nil) == (in.ObjectName != ""), "v0_object_name_becomes_name_selector")
		zz.Assert(out.Monitor.KeepFullObjectsInMemory, "v0_keeps_full_objects")
	}
	for i := range c.Schedules {
		zz.Assert(c.Schedules[i].BindingName == vhOrDefault(cv0.Schedule[i].Name, "schedule"), "schedule_name_default")
		zz.Assert(c.Schedules[i].Queue == "main" && c.Schedules[i].AllowFailure == cv0.Schedule[i].AllowFailure, "schedule_settings_carried")
	}
	zz.Reach("end")
}
