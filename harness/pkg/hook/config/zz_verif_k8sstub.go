package config

// Engine-side cut inside k8s.io/apimachinery: the text of a field validation
// error is built with reflection (outside the engine's fragment); only the
// fact that validation failed matters to the checks.  Native replay runs the
// real method.

import "k8s.io/apimachinery/pkg/util/validation/field"

//verif:enginestub (*k8s.io/apimachinery/pkg/util/validation/field.Error).Error
func vhFieldErrorText(e *field.Error) string {
	return "validation error at " + e.Field
}
