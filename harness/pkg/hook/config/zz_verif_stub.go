package config

// Guarded stub of HookConfig.LoadAndValidate (bytes -> config decoding and
// schema validation are outside the encodable fragment, see C10).

var VLoadAndValidateFn func(c *HookConfig, data []byte) error

func vLoadStubActive() bool { return VLoadAndValidateFn != nil }

//verif:stub (*$R/pkg/hook/config.HookConfig).LoadAndValidate if vLoadStubActive
func vLoadAndValidateStub(c *HookConfig, data []byte) error { return VLoadAndValidateFn(c, data) }
