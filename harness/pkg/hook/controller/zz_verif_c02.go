package controller

// C02 (a): inside one execution the snapshot of a binding is identical
// everywhere it appears; snapshot keys are the binding's includes; a
// Synchronization context's objects come from its own binding.

import (
	"strconv"

	"github.com/deckhouse/deckhouse/pkg/log"

	bctx "github.com/flant/shell-operator/pkg/hook/binding_context"
	htypes "github.com/flant/shell-operator/pkg/hook/types"
	kubeeventsmanager "github.com/flant/shell-operator/pkg/kube_events_manager"
	kemtypes "github.com/flant/shell-operator/pkg/kube_events_manager/types"
	zz "github.com/flant/shell-operator/pkg/zzverif"
)

func vhObj(id string) kemtypes.ObjectAndFilterResult {
	o := kemtypes.ObjectAndFilterResult{}
	o.Metadata.ResourceId = id
	return o
}

func VH_C02_update_snapshots() {
	kmgr := kubeeventsmanager.VNewFakeManager()
	nb := zz.Len("nbindings", 1, zz.Param("maxbindings", 3))
	cfgs := make([]htypes.OnKubernetesEventConfig, nb)
	names := make([]string, nb)
	for i := 0; i < nb; i++ {
		si := strconv.Itoa(i)
		names[i] = zz.ConcretizeStr(zz.OneOf("name"+si, "kA", "kB", "kubernetes"))
		mc := &kubeeventsmanager.MonitorConfig{}
		mc.Metadata.MonitorId = "mon" + si
		cfgs[i] = htypes.OnKubernetesEventConfig{Monitor: mc}
		cfgs[i].BindingName = names[i]
		if zz.Bool("incl" + si) {
			cfgs[i].IncludeSnapshotsFrom = []string{zz.ConcretizeStr(zz.OneOf("incl_name"+si, "kA", "kB", "kubernetes"))}
		}
	}
	dup := false
	for i := 0; i < nb; i++ {
		for j := 0; j < i; j++ {
			if names[i] == names[j] {
				dup = true
			}
		}
	}
	zz.Class("duplicate_binding_name", dup)
	hc := NewHookController()
	hc.InitKubernetesBindings(cfgs, kmgr, log.NewNop())
	_, err := hc.KubernetesController.EnableKubernetesBindings()
	zz.Assert(err == nil, "bindings_enabled")
	// every monitor's content changes on each read (objects come and go concurrently)
	for i := 0; i < nb; i++ {
		i := i
		kmgr.Monitors["mon"+strconv.Itoa(i)].SnapFn = func(call int) []kemtypes.ObjectAndFilterResult {
			return []kemtypes.ObjectAndFilterResult{vhObj("mon" + strconv.Itoa(i) + "/read" + strconv.Itoa(call))}
		}
	}
	// one execution with 1..2 contexts, each of one of the bindings
	nctx := zz.Len("ncontexts", 1, 2)
	var ctxs []bctx.BindingContext
	owner := make([]int, nctx)
	for c := 0; c < nctx; c++ {
		owner[c] = zz.Len("ctx_binding"+strconv.Itoa(c), 0, nb-1)
		bc := bctx.BindingContext{Binding: names[owner[c]]}
		bc.Metadata.BindingType = htypes.OnKubernetesEvent
		bc.Type = kemtypes.TypeEvent
		if zz.Bool("ctx_is_sync" + strconv.Itoa(c)) {
			bc.Type = kemtypes.TypeSynchronization
		}
		ctxs = append(ctxs, bc)
	}
	out := hc.UpdateSnapshots(ctxs)
	zz.Assert(len(out) == nctx, "every_context_kept")
	seen := map[string]string{} // binding name -> first read id seen in this execution
	for c := 0; c < nctx && c < len(out); c++ {
		b := owner[c]
		// the first binding with this name is the one a lookup by name can mean
		inc := cfgs[b].IncludeSnapshotsFrom
		for k := 0; k < nb; k++ {
			if names[k] == names[b] {
				inc = cfgs[k].IncludeSnapshotsFrom
				break
			}
		}
		zz.Assert(len(out[c].Snapshots) == len(inc), "snapshot_keys_are_the_includes")
		for _, name := range inc {
			l, has := out[c].Snapshots[name]
			zz.Assert(has, "snapshot_keys_are_the_includes")
			known := false
			for k := 0; k < nb; k++ {
				if names[k] == name {
					known = true
				}
			}
			if known && has {
				zz.Assert(len(l) == 1, "snapshot_is_the_bindings_objects")
				if len(l) == 1 {
					if prev, ok := seen[name]; ok {
						zz.Assert(prev == l[0].Metadata.ResourceId, "same_snapshot_everywhere_in_one_execution")
					}
					seen[name] = l[0].Metadata.ResourceId
				}
			}
		}
		if out[c].Type == kemtypes.TypeSynchronization {
			zz.Assert(len(out[c].Objects) == 1, "synchronization_has_objects")
			if len(out[c].Objects) == 1 {
				id := out[c].Objects[0].Metadata.ResourceId
				zz.Assert(len(id) > 4 && id[:4] == "mon"+strconv.Itoa(b), "synchronization_objects_come_from_its_own_binding")
				if prev, ok := seen[names[b]]; ok {
					zz.Assert(prev == id, "same_snapshot_everywhere_in_one_execution")
				}
				seen[names[b]] = id
			}
		}
	}
	zz.Reach("end")
}
