package controller

// C09: the binding context handed to the hook follows the documented contract.

import (
	"k8s.io/apimachinery/pkg/apis/meta/v1/unstructured"

	bctx "github.com/flant/shell-operator/pkg/hook/binding_context"
	"github.com/flant/shell-operator/pkg/hook/config"
	htypes "github.com/flant/shell-operator/pkg/hook/types"
	kubeeventsmanager "github.com/flant/shell-operator/pkg/kube_events_manager"
	kemtypes "github.com/flant/shell-operator/pkg/kube_events_manager/types"
	zz "github.com/flant/shell-operator/pkg/zzverif"
)

// shapes of the jq result (see C08): 0 no filter, 1 object field, 2 constructed
// object, 3 string, 4 array, 5 an empty object
func vhC09Filter(shape int) string {
	switch shape {
	case 0:
		return ""
	case 2:
		return "{a: .v}"
	}
	return ".v"
}

func vhC09Object(shape int, name, sv string) *unstructured.Unstructured {
	var v any = sv
	switch shape {
	case 1:
		v = map[string]any{"k": sv}
	case 4:
		v = []any{sv}
	case 5:
		v = map[string]any{}
	}
	return &unstructured.Unstructured{Object: map[string]any{
		"apiVersion": "v1", "kind": "Pod",
		"metadata": map[string]any{"name": name, "namespace": "ns"},
		"v":        v,
	}}
}

func vhKeys(m map[string]interface{}, allowed ...string) bool {
	for k := range m {
		ok := false
		for _, a := range allowed {
			if k == a {
				ok = true
			}
		}
		if !ok {
			return false
		}
	}
	return true
}

func vhHas(m map[string]interface{}, k string) bool { _, ok := m[k]; return ok }

// vhFilterResultOK: filterResult equals the jq result for the object in state sv.
func vhFilterResultOK(shape int, fr interface{}, sv string) bool {
	switch shape {
	case 1:
		mm, ok := fr.(map[string]any)
		if !ok {
			return false
		}
		s, ok := mm["k"].(string)
		return ok && len(mm) == 1 && s == sv
	case 2:
		mm, ok := fr.(map[string]any)
		if !ok {
			return false
		}
		s, ok := mm["a"].(string)
		return ok && len(mm) == 1 && s == sv
	case 3:
		s, ok := fr.(string)
		return ok && s == sv
	case 5:
		mm, ok := fr.(map[string]any)
		return ok && mm != nil && len(mm) == 0
	case 4:
		l, ok := fr.([]any)
		if !ok || len(l) != 1 {
			return false
		}
		s, ok := l[0].(string)
		return ok && s == sv
	}
	return false
}

func VH_C09_kube_context() {
	version := zz.ConcretizeStr(zz.OneOf("version", "v1", "v0"))
	shape := zz.Len("shape", 0, 5)
	keepFull := zz.Bool("keep_full_objects")
	if version == "v0" {
		// what the v0 loader produces for every v0 binding
		keepFull = vhV0KeepFull()
	}
	group := zz.ConcretizeStr(zz.OneOf("group", "", "g1"))
	withIncludes := zz.Bool("include_snapshots")
	sv := zz.OneOf("state", "x", "y")

	mc := &kubeeventsmanager.MonitorConfig{JqFilter: vhC09Filter(shape), KeepFullObjectsInMemory: keepFull}
	mc.Metadata.MonitorId = "mon"
	cfg := htypes.OnKubernetesEventConfig{Monitor: mc, Group: group, KeepFullObjectsInMemory: keepFull}
	cfg.BindingName = "kb"
	if withIncludes {
		cfg.IncludeSnapshotsFrom = []string{"kb"}
	}
	link := &KubernetesBindingToMonitorLink{MonitorId: "mon", BindingConfig: cfg}

	mkObj := func(name string) kemtypes.ObjectAndFilterResult {
		r, err := kubeeventsmanager.VApplyFilter(vhC09Filter(shape), vhC09Object(shape, name, sv))
		zz.Assume(err == nil)
		if !keepFull {
			r.RemoveFullObject()
		}
		return *r
	}

	isEvent := zz.Bool("is_event")
	ev := kemtypes.KubeEvent{MonitorId: "mon"}
	nobj := 1
	watch := kemtypes.WatchEventAdded
	if isEvent {
		ev.Type = kemtypes.TypeEvent
		watch = kemtypes.WatchEventType(zz.ConcretizeStr(zz.OneOf("watch", "Added", "Modified", "Deleted")))
		ev.WatchEvents = []kemtypes.WatchEventType{watch}
		ev.Objects = []kemtypes.ObjectAndFilterResult{mkObj("p0")}
	} else {
		ev.Type = kemtypes.TypeSynchronization
		nobj = zz.Len("nobjects", 0, 2)
		for i := 0; i < nobj; i++ {
			ev.Objects = append(ev.Objects, mkObj("p"+string(rune('0'+i))))
		}
	}
	contexts := ConvertKubeEventToBindingContext(ev, link)
	zz.Assert(len(contexts) == 1, "one_context_per_event")
	if len(contexts) != 1 {
		return
	}
	if withIncludes || group != "" {
		// what UpdateSnapshots / group expansion fill in
		contexts[0].Snapshots = map[string][]kemtypes.ObjectAndFilterResult{"kb": ev.Objects}
		if group != "" {
			contexts[0].Metadata.IncludeSnapshots = []string{"kb"}
		}
	}
	list := bctx.ConvertBindingContextList(version, contexts)
	zz.Assert(len(list) == 1, "array_has_one_item_per_context")
	m := list[0]
	zz.Assert(m["binding"] == "kb", "item_carries_binding")
	zz.Class("non_object_filter_result", shape == 3 || shape == 4)

	if version == "v0" {
		zz.Assert(vhKeys(m, "binding", "resourceEvent", "resourceNamespace", "resourceKind", "resourceName"), "v0_documented_fields_only")
		if isEvent {
			want := map[kemtypes.WatchEventType]string{kemtypes.WatchEventAdded: "add", kemtypes.WatchEventModified: "update", kemtypes.WatchEventDeleted: "delete"}[watch]
			zz.Assert(m["resourceEvent"] == want, "v0_resource_event")
			zz.Assert(m["resourceName"] == "p0" && m["resourceKind"] == "Pod" && m["resourceNamespace"] == "ns", "v0_resource_identity")
		}
		zz.Reach("end")
		return
	}

	zz.Assert(vhHas(m, "snapshots") == (withIncludes || group != ""), "snapshots_present_iff_included")
	switch {
	case group != "":
		zz.Assert(m["type"] == "Group" && m["groupName"] == group, "group_context_type")
		zz.Assert(vhKeys(m, "binding", "type", "groupName", "snapshots"), "group_context_has_only_snapshots")
	case !isEvent:
		zz.Assert(m["type"] == kemtypes.TypeSynchronization, "synchronization_type")
		zz.Assert(vhKeys(m, "binding", "type", "objects", "snapshots"), "synchronization_fields")
		if nobj == 0 {
			l, ok := m["objects"].([]string)
			zz.Assert(ok && len(l) == 0, "synchronization_objects_empty_array")
		} else {
			l, ok := m["objects"].([]kemtypes.ObjectAndFilterResult)
			zz.Assert(ok && len(l) == nobj, "synchronization_has_all_objects")
			for i := 0; ok && i < len(l); i++ {
				om := l[i].Map()
				zz.Assert(vhHas(om, "object") == keepFull, "full_object_omitted_iff_not_kept")
				zz.Assert(vhHas(om, "filterResult") == (shape != 0), "filter_result_present_iff_jq_filter")
				if shape != 0 {
					zz.Assert(vhFilterResultOK(shape, om["filterResult"], sv), "filter_result_is_jq_result")
				}
			}
		}
	default:
		zz.Assert(m["type"] == kemtypes.TypeEvent, "event_type")
		zz.Assert(m["watchEvent"] == string(watch), "event_has_watch_event")
		zz.Assert(vhKeys(m, "binding", "type", "watchEvent", "object", "filterResult", "snapshots"), "event_fields")
		zz.Assert(vhHas(m, "object") == keepFull, "full_object_omitted_iff_not_kept")
		zz.Assert(vhHas(m, "filterResult") == (shape != 0), "filter_result_present_iff_jq_filter")
		if shape != 0 {
			zz.Assert(vhFilterResultOK(shape, m["filterResult"], sv), "filter_result_is_jq_result")
		}
	}
	zz.Reach("end")
}

// VH_C09_other_kinds: schedule, onStartup, admission and conversion contexts.
func VH_C09_other_kinds() {
	kind := htypes.BindingType(zz.ConcretizeStr(zz.OneOf("kind", string(htypes.Schedule), string(htypes.OnStartup), string(htypes.KubernetesValidating), string(htypes.KubernetesMutating), string(htypes.KubernetesConversion))))
	group := zz.ConcretizeStr(zz.OneOf("group", "", "g1"))
	withIncludes := zz.Bool("include_snapshots")
	bc := bctx.BindingContext{Binding: "b"}
	bc.Metadata.BindingType = kind
	bc.Metadata.Group = group
	bc.FromVersion, bc.ToVersion = "v1", "v2"
	if withIncludes {
		bc.Metadata.IncludeSnapshots = []string{"kb"}
		if zz.Bool("snapshots_filled") {
			bc.Snapshots = map[string][]kemtypes.ObjectAndFilterResult{"kb": {}}
		}
	}
	list := bctx.ConvertBindingContextList("v1", []bctx.BindingContext{bc})
	zz.Assert(len(list) == 1, "array_has_one_item_per_context")
	m := list[0]
	zz.Assert(m["binding"] == "b", "item_carries_binding")
	switch kind {
	case htypes.OnStartup:
		zz.Assert(vhKeys(m, "binding"), "onstartup_has_binding_only")
	case htypes.KubernetesValidating:
		zz.Assert(m["type"] == "Validating" && vhHas(m, "review"), "validating_fields")
		zz.Assert(vhHas(m, "snapshots") == withIncludes, "snapshots_present_iff_included")
	case htypes.KubernetesMutating:
		zz.Assert(m["type"] == "Mutating" && vhHas(m, "review"), "mutating_fields")
		zz.Assert(vhHas(m, "snapshots") == withIncludes, "snapshots_present_iff_included")
	case htypes.KubernetesConversion:
		zz.Assert(m["type"] == "Conversion" && m["fromVersion"] == "v1" && m["toVersion"] == "v2" && vhHas(m, "review"), "conversion_fields")
		zz.Assert(vhHas(m, "snapshots") == withIncludes, "snapshots_present_iff_included")
	case htypes.Schedule:
		if group != "" {
			zz.Assert(m["type"] == "Group" && m["groupName"] == group && vhKeys(m, "binding", "type", "groupName", "snapshots"), "group_context_has_only_snapshots")
		} else {
			zz.Assert(m["type"] == "Schedule" && vhKeys(m, "binding", "type", "snapshots"), "schedule_fields")
		}
		zz.Assert(vhHas(m, "snapshots") == withIncludes, "snapshots_present_iff_included")
	}
	zz.Reach("end")
}

// vhV0KeepFull: the keepFullObjectsInMemory value the real v0 loader gives
// every v0 kubernetes binding.
func vhV0KeepFull() bool {
	cv0 := &config.HookConfigV0{OnKubernetesEvent: []config.OnKubernetesEventConfigV0{{Kind: "Pod", EventTypes: []string{"add"}}}}
	c := &config.HookConfig{Version: "v0"}
	err := cv0.ConvertAndCheck(c)
	zz.Assume(err == nil && len(c.OnKubernetesEvents) == 1)
	return c.OnKubernetesEvents[0].Monitor.KeepFullObjectsInMemory
}

// VH_C09_pipeline: the same contract, but the stored results and the event come
// from the real informer code: watch event -> handleWatchEvent -> KubeEvent /
// cache -> ConvertKubeEventToBindingContext -> MapV1.  Object-valued jq results
// only (the non-object shapes are the known finding checked above).
func VH_C09_pipeline() {
	shape := zz.Len("shape", 0, 2)
	keepFull := zz.Bool("keep_full_objects")
	sv := zz.OneOf("state", "x", "y")
	mc := &kubeeventsmanager.MonitorConfig{JqFilter: vhC09Filter(shape), KeepFullObjectsInMemory: keepFull}
	mc.Metadata.MonitorId = "mon"
	mc.WithEventTypes(nil)
	cfg := htypes.OnKubernetesEventConfig{Monitor: mc, KeepFullObjectsInMemory: keepFull}
	cfg.BindingName = "kb"
	link := &KubernetesBindingToMonitorLink{MonitorId: "mon", BindingConfig: cfg}
	inf := kubeeventsmanager.VNewInformer(mc)

	isEvent := zz.Bool("is_event")
	var ev kemtypes.KubeEvent
	nobj := 1
	watch := kemtypes.WatchEventAdded
	if isEvent {
		watch = kemtypes.WatchEventType(zz.ConcretizeStr(zz.OneOf("watch", "Added", "Modified", "Deleted")))
		if watch != kemtypes.WatchEventAdded {
			// the object is known in an earlier state
			inf.Watch(vhC09Object(shape, "p0", "w"), kemtypes.WatchEventAdded)
			inf.Events = nil
		}
		inf.Watch(vhC09Object(shape, "p0", sv), watch)
		zz.Assert(len(inf.Events) == 1, "watch_event_is_delivered")
		if len(inf.Events) != 1 {
			return
		}
		ev = inf.Events[0]
	} else {
		nobj = zz.Len("nobjects", 0, 2)
		for i := 0; i < nobj; i++ {
			inf.Watch(vhC09Object(shape, "p"+string(rune('0'+i)), sv), kemtypes.WatchEventAdded)
		}
		ev = kemtypes.KubeEvent{MonitorId: "mon", Type: kemtypes.TypeSynchronization, Objects: inf.Snapshot()}
	}
	contexts := ConvertKubeEventToBindingContext(ev, link)
	zz.Assert(len(contexts) == 1, "one_context_per_event")
	if len(contexts) != 1 {
		return
	}
	list := bctx.ConvertBindingContextList("v1", contexts)
	zz.Assert(len(list) == 1, "array_has_one_item_per_context")
	m := list[0]
	zz.Assert(m["binding"] == "kb", "item_carries_binding")
	if !isEvent {
		zz.Assert(m["type"] == kemtypes.TypeSynchronization, "synchronization_type")
		if nobj == 0 {
			l, ok := m["objects"].([]string)
			zz.Assert(ok && len(l) == 0, "synchronization_objects_empty_array")
		} else {
			l, ok := m["objects"].([]kemtypes.ObjectAndFilterResult)
			zz.Assert(ok && len(l) == nobj, "synchronization_has_all_objects")
			for i := 0; ok && i < len(l); i++ {
				om := l[i].Map()
				zz.Assert(vhHas(om, "object") == keepFull, "full_object_omitted_iff_not_kept")
				zz.Assert(vhHas(om, "filterResult") == (shape != 0), "filter_result_present_iff_jq_filter")
				if shape != 0 {
					zz.Assert(vhFilterResultOK(shape, om["filterResult"], sv), "filter_result_is_jq_result")
				}
			}
		}
	} else {
		zz.Assert(m["type"] == kemtypes.TypeEvent, "event_type")
		zz.Assert(m["watchEvent"] == string(watch), "event_has_watch_event")
		zz.Assert(vhKeys(m, "binding", "type", "watchEvent", "object", "filterResult"), "event_fields")
		zz.Assert(vhHas(m, "object") == keepFull, "full_object_omitted_iff_not_kept")
		zz.Assert(vhHas(m, "filterResult") == (shape != 0), "filter_result_present_iff_jq_filter")
		if shape != 0 {
			zz.Assert(vhFilterResultOK(shape, m["filterResult"], sv), "filter_result_is_jq_result")
		}
	}
	zz.Reach("end")
}
