package controller

// C11 (b): one tick of a crontab yields exactly one execution info per enabled
// schedule binding with that crontab, carrying that binding's settings.

import (
	"strconv"

	htypes "github.com/flant/shell-operator/pkg/hook/types"
	smtypes "github.com/flant/shell-operator/pkg/schedule_manager/types"
	zz "github.com/flant/shell-operator/pkg/zzverif"
)

type vhSchedRecorder struct {
	added   []smtypes.ScheduleEntry
	removed []smtypes.ScheduleEntry
}

func (r *vhSchedRecorder) Stop()                          {}
func (r *vhSchedRecorder) Start()                         {}
func (r *vhSchedRecorder) Add(e smtypes.ScheduleEntry)    { r.added = append(r.added, e) }
func (r *vhSchedRecorder) Remove(e smtypes.ScheduleEntry) { r.removed = append(r.removed, e) }
func (r *vhSchedRecorder) Ch() chan string                { return nil }

func VH_C11_bindings() {
	n := zz.Len("nbindings", 0, zz.Param("maxbindings", 3))
	cfgs := make([]htypes.ScheduleConfig, n)
	for i := 0; i < n; i++ {
		si := strconv.Itoa(i)
		cfgs[i].BindingName = "binding" + si
		cfgs[i].AllowFailure = zz.Bool("allow" + si)
		cfgs[i].ScheduleEntry = smtypes.ScheduleEntry{Crontab: zz.OneOf("crontab"+si, "* * * * *", "*/5 * * * *"), Id: "sched-" + si}
		cfgs[i].Queue = zz.OneOf("queue"+si, "main", "q1")
		cfgs[i].Group = zz.OneOf("group"+si, "", "g1")
		if zz.Bool("incl" + si) {
			cfgs[i].IncludeSnapshotsFrom = []string{"snap" + si}
		}
	}
	rec := &vhSchedRecorder{}
	c := NewScheduleBindingsController()
	c.WithScheduleManager(rec)
	c.WithScheduleBindings(cfgs)
	tick := zz.OneOf("tick", "* * * * *", "*/5 * * * *", "0 0 * * *")

	zz.Assert(!c.CanHandleEvent(tick), "no_task_before_enable")
	zz.Assert(len(c.HandleEvent(tick)) == 0, "no_task_before_enable")

	c.EnableScheduleBindings()
	zz.Assert(len(rec.added) == n, "each_binding_registered_once")
	for i := 0; i < len(rec.added) && i < n; i++ {
		zz.Assert(rec.added[i] == cfgs[i].ScheduleEntry, "each_binding_registered_once")
	}

	zz.MapOrder(zz.Param("maporder", 1))
	infos := c.HandleEvent(tick)
	zz.MapOrder(0)
	want := 0
	for i := 0; i < n; i++ {
		if cfgs[i].ScheduleEntry.Crontab == tick {
			want++
			cnt := 0
			for _, in := range infos {
				if in.Binding == cfgs[i].BindingName {
					cnt++
					zz.Assert(in.AllowFailure == cfgs[i].AllowFailure, "task_carries_allow_failure")
					zz.Assert(in.QueueName == cfgs[i].Queue, "task_goes_to_binding_queue")
					zz.Assert(in.Group == cfgs[i].Group, "task_carries_group")
					zz.Assert(len(in.IncludeSnapshots) == len(cfgs[i].IncludeSnapshotsFrom), "task_carries_snapshot_list")
					zz.Assert(len(in.BindingContext) == 1, "one_binding_context_per_task")
					if len(in.BindingContext) == 1 {
						bc := in.BindingContext[0]
						zz.Assert(bc.Binding == cfgs[i].BindingName, "context_names_binding")
						zz.Assert(bc.Metadata.BindingType == htypes.Schedule, "context_is_schedule")
						zz.Assert(bc.Metadata.Group == cfgs[i].Group, "context_carries_group")
						zz.Assert(len(bc.Metadata.IncludeSnapshots) == len(cfgs[i].IncludeSnapshotsFrom), "context_carries_snapshot_list")
					}
				}
			}
			zz.Assert(cnt == 1, "exactly_one_task_per_binding_per_tick")
		}
	}
	zz.Assert(len(infos) == want, "no_task_for_other_bindings")
	zz.Assert(c.CanHandleEvent(tick) == (want > 0), "can_handle_iff_some_binding_has_crontab")

	c.DisableScheduleBindings()
	zz.Assert(len(rec.removed) == n, "each_binding_unregistered_once")
	zz.Assert(len(c.HandleEvent(tick)) == 0, "no_task_after_disable")
	zz.Reach("end")
}
