package controller

// C11 (b): one tick of a crontab yields exactly one execution info per enabled
// schedule binding with that crontab, carrying that binding's settings.

import (
	"strconv"

	htypes "github.com/flant/shell-operator/pkg/hook/types"
	smtypes "github.com/flant/shell-operator/pkg/schedule_manager/types"
	zz "github.com/flant/shell-operator/pkg/zzverif"
)

type vhSchedRecorder struct {
	added   []smtypes.ScheduleEntry
	removed []smtypes.ScheduleEntry
}

func (r *vhSchedRecorder) Stop()                          {}
func (r *vhSchedRecorder) Start()                         {}
func (r *vhSchedRecorder) Add(e smtypes.ScheduleEntry)    { r.added = append(r.added, e) }
func (r *vhSchedRecorder) Remove(e smtypes.ScheduleEntry) { r.removed = append(r.removed, e) }
func (r *vhSchedRecorder) Ch() chan string                { return nil }

func VH_C11_bindings() {
	n := zz.Len("nbindings", 0, zz.Param("maxbindings", 3))
	cfgs := make([]htypes.ScheduleConfig, n)
	for i := 0; i < n; i++ {
		si := strconv.Itoa(i)
		// names are not unique: every unnamed schedule binding is called "schedule"
		cfgs[i].BindingName = zz.OneOf("name"+si, "schedule", "nightly")
		cfgs[i].AllowFailure = zz.Bool("allow" + si)
		cfgs[i].ScheduleEntry = smtypes.ScheduleEntry{Crontab: zz.OneOf("crontab"+si, "* * * * *", "*/5 * * * *"), Id: "sched-" + si}
		cfgs[i].Queue = zz.OneOf("queue"+si, "main", "q1")
		cfgs[i].Group = zz.OneOf("group"+si, "", "g1")
		if zz.Bool("incl" + si) {
			cfgs[i].IncludeSnapshotsFrom = []string{"snap" + si}
		}
	}
	rec := &vhSchedRecorder{}
	// through the hook controller, as the hook manager drives it
	hc := NewHookController()
	hc.InitScheduleBindings(cfgs, rec)
	handle := func(crontab string) []BindingExecutionInfo {
		var out []BindingExecutionInfo
		hc.HandleScheduleEvent(crontab, func(info BindingExecutionInfo) { out = append(out, info) })
		return out
	}
	tick := zz.OneOf("tick", "* * * * *", "*/5 * * * *", "0 0 * * *")

	zz.Assert(!hc.CanHandleScheduleEvent(tick), "no_task_before_enable")
	zz.Assert(len(handle(tick)) == 0, "no_task_before_enable")

	hc.EnableScheduleBindings()
	zz.Assert(len(rec.added) == n, "each_binding_registered_once")
	for i := 0; i < len(rec.added) && i < n; i++ {
		zz.Assert(rec.added[i] == cfgs[i].ScheduleEntry, "each_binding_registered_once")
	}

	zz.MapOrder(zz.Param("maporder", 1))
	infos := handle(tick)
	zz.MapOrder(0)
	// the bindings that must get a task, and a one-to-one assignment of the produced
	// tasks to them in which every task carries its binding's settings
	var exp []int
	for i := 0; i < n; i++ {
		if cfgs[i].ScheduleEntry.Crontab == tick {
			exp = append(exp, i)
		}
	}
	want := len(exp)
	fits := func(i, j int) bool {
		in := infos[j]
		ok := zz.And(in.Binding == cfgs[i].BindingName, in.AllowFailure == cfgs[i].AllowFailure)
		ok = zz.And(ok, zz.And(in.QueueName == cfgs[i].Queue, in.Group == cfgs[i].Group))
		ok = zz.And(ok, len(in.IncludeSnapshots) == len(cfgs[i].IncludeSnapshotsFrom))
		if len(in.IncludeSnapshots) == 1 && len(cfgs[i].IncludeSnapshotsFrom) == 1 {
			ok = zz.And(ok, in.IncludeSnapshots[0] == cfgs[i].IncludeSnapshotsFrom[0])
		}
		if len(in.BindingContext) != 1 {
			return false
		}
		bc := in.BindingContext[0]
		ok = zz.And(ok, zz.And(bc.Binding == cfgs[i].BindingName, bc.Metadata.Group == cfgs[i].Group))
		ok = zz.And(ok, bc.Metadata.BindingType == htypes.Schedule)
		ok = zz.And(ok, len(bc.Metadata.IncludeSnapshots) == len(cfgs[i].IncludeSnapshotsFrom))
		return ok
	}
	var assign func(k int, used []bool) bool
	assign = func(k int, used []bool) bool {
		if k == len(exp) {
			return true
		}
		res := false
		for j := range infos {
			if used[j] {
				continue
			}
			used[j] = true
			res = zz.Or(res, zz.And(fits(exp[k], j), assign(k+1, used)))
			used[j] = false
		}
		return res
	}
	for _, in := range infos {
		zz.Assert(len(in.BindingContext) == 1, "one_binding_context_per_task")
	}
	if len(infos) == want {
		zz.Assert(assign(0, make([]bool, len(infos))), "exactly_one_task_per_binding_carrying_its_settings")
	}
	zz.Assert(len(infos) == want, "no_task_for_other_bindings")
	zz.Assert(hc.CanHandleScheduleEvent(tick) == (want > 0), "can_handle_iff_some_binding_has_crontab")

	hc.DisableScheduleBindings()
	zz.Assert(len(rec.removed) == n, "each_binding_unregistered_once")
	zz.Assert(len(handle(tick)) == 0, "no_task_after_disable")
	// a hook that is switched off and on again gets its schedules back
	if zz.Bool("enabled_again") {
		hc.EnableScheduleBindings()
		zz.Assert(len(rec.added) == 2*n, "each_binding_registered_again")
		zz.Assert(len(handle(tick)) == want, "tasks_again_after_re_enable")
	}
	zz.Reach("end")
}
