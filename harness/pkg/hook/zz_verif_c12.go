package hook

// C12: hook execution contract (glue): inputs via files, outputs read back,
// temporary files removed.

import (
	"errors"
	"os"
	"path/filepath"
	"strings"

	"github.com/deckhouse/deckhouse/pkg/log"

	"github.com/flant/shell-operator/pkg/executor"
	bctx "github.com/flant/shell-operator/pkg/hook/binding_context"
	"github.com/flant/shell-operator/pkg/hook/config"
	"github.com/flant/shell-operator/pkg/hook/controller"
	htypes "github.com/flant/shell-operator/pkg/hook/types"
	"github.com/flant/shell-operator/pkg/metric_storage/operation"
	"github.com/flant/shell-operator/pkg/webhook/admission"
	"github.com/flant/shell-operator/pkg/webhook/conversion"
	zz "github.com/flant/shell-operator/pkg/zzverif"
)

func vhEnvValue(env []string, key string) (string, int) {
	n := 0
	val := ""
	for _, e := range env {
		if strings.HasPrefix(e, key+"=") {
			n++
			val = strings.TrimPrefix(e, key+"=")
		}
	}
	return val, n
}

func vhFileExists(p string) bool { _, err := os.Stat(p); return err == nil }

func VH_C12_run() {
	tmp, err := os.MkdirTemp("", "zzverif")
	zz.Assume(err == nil)
	hooksDir := filepath.Join(tmp, "hooks")
	zz.Assume(os.Mkdir(hooksDir, 0o755) == nil)
	h := NewHook("sub/hook.sh", filepath.Join(hooksDir, "sub", "hook.sh"), false, false, "", log.NewNop())
	h.Config = &config.HookConfig{Version: "v1"}
	h.WithHookController(controller.NewHookController())
	h.WithTmpDir(tmp)

	// the task's contexts
	nctx := zz.Len("ncontexts", 0, 2)
	var ctxs []bctx.BindingContext
	want := ""
	for i := 0; i < nctx; i++ {
		bc := bctx.BindingContext{Binding: "b" + string(rune('0'+i))}
		bc.Metadata.BindingType = htypes.Schedule
		ctxs = append(ctxs, bc)
		want += bc.Binding + ";"
	}
	bctx.VJsonFn = func(l bctx.BindingContextList) ([]byte, error) {
		s := ""
		for _, m := range l {
			s += m["binding"].(string) + ";"
		}
		return []byte(s), nil
	}

	// what the hook process does
	exitFails := zz.Bool("nonzero_exit")
	writeMetrics := zz.Bool("writes_metrics")
	metricsBad := zz.Bool("metrics_malformed")
	writeAdmission := zz.Bool("writes_admission_response")
	admissionBad := zz.Bool("admission_malformed")
	writeConversion := zz.Bool("writes_conversion_response")
	conversionBad := zz.Bool("conversion_malformed")
	writePatch := zz.Bool("writes_patch")

	var files [5]string
	ran := 0
	executor.VRunFn = func(dir, path string, args []string, env []string) (*executor.CmdUsage, error) {
		ran++
		zz.Assert(dir == filepath.Join(hooksDir, "sub"), "hook_started_in_its_own_directory")
		zz.Assert(path == filepath.Join(hooksDir, "sub", "hook.sh") && len(args) == 0, "hook_started_by_its_path")
		keys := []string{"BINDING_CONTEXT_PATH", "METRICS_PATH", "CONVERSION_RESPONSE_PATH", "ADMISSION_RESPONSE_PATH", "KUBERNETES_PATCH_PATH"}
		for i, k := range keys {
			v, n := vhEnvValue(env, k)
			zz.Assert(n == 1, "environment_points_to_files")
			files[i] = v
			zz.Assert(vhFileExists(v), "input_files_exist_when_hook_starts")
			zz.Assert(strings.HasPrefix(v, tmp+"/"), "temporary_files_live_in_tmp_dir")
		}
		vp, _ := vhEnvValue(env, "VALIDATING_RESPONSE_PATH")
		zz.Assert(vp == files[3], "validating_path_is_admission_path")
		for i := 0; i < 5; i++ {
			for j := 0; j < i; j++ {
				zz.Assert(files[i] != files[j], "file_names_unique_per_execution")
			}
		}
		data, _ := os.ReadFile(files[0])
		zz.Assert(string(data) == want, "context_file_holds_exactly_the_task_contexts")
		for i := 1; i < 5; i++ {
			d, err := os.ReadFile(files[i])
			zz.Assert(err == nil && len(d) == 0, "output_files_start_empty")
		}
		if writeMetrics {
			os.WriteFile(files[1], []byte("metrics"), 0o644)
		}
		if writeConversion {
			os.WriteFile(files[2], []byte("conversion"), 0o644)
		}
		if writeAdmission {
			os.WriteFile(files[3], []byte("admission"), 0o644)
		}
		if writePatch {
			os.WriteFile(files[4], []byte("patch"), 0o644)
		}
		if exitFails {
			return nil, errors.New("exit status 1")
		}
		return &executor.CmdUsage{}, nil
	}
	operation.VFromBytesFn = func(data []byte) ([]operation.MetricOperation, error) {
		zz.Assert(string(data) == "metrics", "metrics_file_is_read_back")
		if metricsBad {
			return nil, errors.New("bad metrics")
		}
		return []operation.MetricOperation{{Name: "m"}}, nil
	}
	admission.VResponseFromBytesFn = func(data []byte) (*admission.Response, error) {
		zz.Assert(string(data) == "admission", "admission_file_is_read_back")
		if admissionBad {
			return nil, errors.New("bad admission response")
		}
		return &admission.Response{Allowed: true}, nil
	}
	conversion.VResponseFromBytesFn = func(data []byte) (*conversion.Response, error) {
		zz.Assert(string(data) == "conversion", "conversion_file_is_read_back")
		if conversionBad {
			return nil, errors.New("bad conversion response")
		}
		return &conversion.Response{}, nil
	}

	// another execution may be in progress (the same hook in a second queue, or a hook
	// whose name continues this one's): its temporary files are in the same directory
	var foreign []string
	if zz.Bool("another_execution_in_progress") {
		safe := h.SafeName()
		foreign = []string{
			filepath.Join(tmp, "hook-"+safe+"-binding-context-other.json"),
			filepath.Join(tmp, "hook-"+safe+"-metrics-other.json"),
			filepath.Join(tmp, safe+"-object-patch-other"),
			filepath.Join(tmp, "hook-"+safe+"-nodes-admission-response-other.json"),
		}
		for _, f := range foreign {
			zz.Assume(os.WriteFile(f, []byte("theirs"), 0o644) == nil)
		}
	}

	res, runErr := h.Run(htypes.Schedule, ctxs, map[string]string{})

	zz.Assert(ran == 1, "hook_process_started_once")
	wantFail := zz.Or(exitFails, zz.Or(zz.And(writeMetrics, metricsBad), zz.Or(zz.And(writeAdmission, admissionBad), zz.And(writeConversion, conversionBad))))
	zz.Assert(zz.Implies(wantFail, runErr != nil), "failure_or_malformed_output_fails_the_execution")
	zz.Assert(zz.Implies(zz.Not(wantFail), runErr == nil), "clean_run_succeeds")
	if runErr == nil && res != nil {
		zz.Assert((len(res.Metrics) == 1) == writeMetrics, "metrics_output_is_returned")
		zz.Assert((res.AdmissionResponse != nil) == writeAdmission, "admission_output_is_returned")
		zz.Assert((res.ConversionResponse != nil) == writeConversion, "conversion_output_is_returned")
		zz.Assert((string(res.KubernetesPatchBytes) == "patch") == writePatch && (len(res.KubernetesPatchBytes) == 0) == !writePatch, "patch_output_is_returned")
	}
	// whatever the outcome, the temporary files are gone
	for i := 0; i < 5; i++ {
		zz.Assert(files[i] != "" && !vhFileExists(files[i]), "temporary_files_deleted_after_execution")
	}
	for _, f := range foreign {
		d, err := os.ReadFile(f)
		zz.Assert(err == nil && string(d) == "theirs", "files_of_other_executions_are_untouched")
	}
	os.RemoveAll(tmp)
	zz.Reach("end")
}
