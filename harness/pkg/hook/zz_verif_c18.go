package hook

// C18 (glue): Hook.RateLimitWait consults the hook's own limiter for every
// execution, whatever the settings are (the token bucket itself is the trusted
// base golang.org/x/time/rate).

import (
	"context"
	"time"

	"golang.org/x/time/rate"

	"github.com/flant/shell-operator/pkg/hook/config"
	htypes "github.com/flant/shell-operator/pkg/hook/types"
	zz "github.com/flant/shell-operator/pkg/zzverif"
)

var vhWaits []*rate.Limiter

// engine side: the limiter's Wait is recorded and returns at once (its floating
// point arithmetic over the clock is outside the encodable fragment)
//
//verif:enginestub (*golang.org/x/time/rate.Limiter).Wait
func vhLimiterWait(l *rate.Limiter, _ context.Context) error {
	vhWaits = append(vhWaits, l)
	return nil
}

func VH_C18_wait() {
	vhWaits = nil
	cfg := &config.HookConfig{Version: "v1"}
	has := zz.Bool("has_settings")
	intervals := []time.Duration{0, 500 * time.Millisecond, 3 * time.Second}
	ii := zz.Len("interval", 0, len(intervals)-1)
	burst := zz.Len("burst", 0, 2)
	if has {
		cfg.Settings = &htypes.Settings{ExecutionMinInterval: intervals[ii], ExecutionBurst: burst}
	}
	h := VNewHook("hookA", cfg, nil, nil, nil, nil)
	limited := has && intervals[ii] != 0
	if zz.Symbolic() {
		err := h.RateLimitWait(context.Background())
		zz.Assert(err == nil, "wait_returns")
		if limited {
			zz.Assert(len(vhWaits) == 1 && vhWaits[0] == h.RateLimiter, "every_execution_waits_on_the_hooks_limiter")
		} else {
			zz.Assert(len(vhWaits) <= 1, "every_execution_waits_on_the_hooks_limiter")
		}
	} else {
		// the real token bucket: with a deadline far shorter than the interval the
		// first max(burst,1) waits pass and the next one is refused at once
		b := burst
		if !has || b == 0 {
			b = 1
		}
		ctx, cancel := context.WithTimeout(context.Background(), 20*time.Millisecond)
		defer cancel()
		for i := 0; i < b; i++ {
			zz.Assert(h.RateLimitWait(ctx) == nil, "wait_returns")
		}
		err := h.RateLimitWait(ctx)
		zz.Assert((err != nil) == limited, "every_execution_waits_on_the_hooks_limiter")
	}
	zz.Reach("end")
}
