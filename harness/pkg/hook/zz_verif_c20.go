package hook

// C20 (b): Manager.Init loads exactly the discovered files, in lexical order,
// asks each for --config once, and fails naming the hook whose config is bad.

import (
	"errors"
	"os"
	"strconv"
	"strings"

	"github.com/deckhouse/deckhouse/pkg/log"

	"github.com/flant/shell-operator/pkg/hook/config"
	utils_file "github.com/flant/shell-operator/pkg/utils/file"
	zz "github.com/flant/shell-operator/pkg/zzverif"
)

var vExecFn func(hookName, dir, entrypoint string, args []string) ([]byte, error)

func vExecStubActive() bool { return vExecFn != nil }

//verif:stub (*$R/pkg/hook.Manager).execCommandOutput if vExecStubActive
func vExecStub(hm *Manager, hookName string, dir string, entrypoint string, envs []string, args []string) ([]byte, error) {
	return vExecFn(hookName, dir, entrypoint, args)
}

func VH_C20_init() {
	tmp, root, es := utils_file.VHBuildTree(zz.Param("maxentries", 2))
	hm := NewHookManager(&ManagerConfig{WorkingDir: root, TempDir: tmp, Logger: log.NewNop()})

	type call struct {
		name, entry string
		args        []string
	}
	var calls []call
	failAt := zz.IntRange("fail_at_call", -1, 3) // which --config run fails (-1: none)
	invalidAt := zz.IntRange("invalid_at_call", -1, 3)
	vExecFn = func(hookName, dir, entrypoint string, args []string) ([]byte, error) {
		k := len(calls)
		calls = append(calls, call{hookName, entrypoint, args})
		if zz.Concretize(vhEqInt(k, failAt)) == 1 {
			return nil, errors.New("exit status 1")
		}
		return []byte("cfg" + strconv.Itoa(k)), nil
	}
	loads := 0
	config.VLoadAndValidateFn = func(c *config.HookConfig, data []byte) error {
		k := loads
		loads++
		if zz.Concretize(vhEqInt(k, invalidAt)) == 1 {
			return errors.New("invalid config")
		}
		c.Version = "v1"
		return nil
	}

	err := hm.Init()

	// expected hooks
	nHooks := 0
	for i := range es {
		if utils_file.VHIsHook(es, i) {
			nHooks++
		}
	}
	// every --config run is for a discovered file, once each, with --config as the only argument
	for i, c := range calls {
		zz.Assert(len(c.args) == 1 && c.args[0] == "--config", "config_requested_with_config_flag")
		found := false
		for j := range es {
			if utils_file.VHIsHook(es, j) && utils_file.VHEntryPath(es, j) == c.entry {
				found = true
			}
		}
		zz.Assert(found, "config_requested_only_for_discovered_files")
		for k := 0; k < i; k++ {
			zz.Assert(calls[k].entry != c.entry, "config_requested_once_per_file")
			zz.Assert(calls[k].entry < c.entry, "hooks_loaded_in_lexical_order")
		}
		zz.Assert(c.name == strings.TrimPrefix(c.entry, root+"/"), "hook_named_by_relative_path")
	}
	failed := (failAt >= 0 && failAt < nHooks) || (invalidAt >= 0 && invalidAt < nHooks && (failAt < 0 || invalidAt < failAt))
	if !failed {
		zz.Assert(err == nil, "init_succeeds_when_all_configs_load")
		zz.Assert(len(calls) == nHooks, "every_discovered_file_asked_for_config")
		names := hm.GetHookNames()
		zz.Assert(len(names) == nHooks, "exactly_the_discovered_hooks")
		for i := range names {
			if i < len(calls) {
				zz.Assert(names[i] == calls[i].name, "hooks_registered_in_load_order")
			}
			zz.Assert(hm.GetHook(names[i]) != nil, "hook_is_indexed_by_name")
		}
	} else {
		zz.Assert(err != nil, "bad_config_fails_initialization")
		if err != nil && len(calls) > 0 {
			bad := calls[len(calls)-1]
			msg := err.Error()
			zz.Assert(zz.Or(strings.Contains(msg, bad.name), strings.Contains(msg, bad.entry)), "error_names_the_hook")
		}
	}
	os.RemoveAll(tmp)
	zz.Reach("end")
}

func vhEqInt(a, b int) int {
	if a == b {
		return 1
	}
	return 0
}

// VH_C20_order: a directory next to siblings whose names extend its name with a
// character that sorts before the path separator: the load order is the lexical
// order of the paths relative to the hooks directory, not the walk order.
func VH_C20_order() {
	tmp, err := os.MkdirTemp("", "zzverif")
	zz.Assume(err == nil)
	root := tmp + "/hooks"
	zz.Assume(os.Mkdir(root, 0o755) == nil)
	dir := zz.OneOf("dir", "sub", "a")
	sib := zz.OneOf("sibling", "sub.sh", "sub-x", "t", "a.b", "a0")
	child := zz.OneOf("child", "hook", "x.sh")
	zz.Assume(dir != sib)
	zz.Assume(os.Mkdir(root+"/"+dir, 0o755) == nil)
	for _, p := range []string{root + "/" + dir + "/" + child, root + "/" + sib} {
		zz.Assume(os.WriteFile(p, []byte("#!/bin/sh\n"), 0o644) == nil)
		zz.Assume(os.Chmod(p, 0o755) == nil)
	}
	hm := NewHookManager(&ManagerConfig{WorkingDir: root, TempDir: tmp, Logger: log.NewNop()})
	vExecFn = func(hookName, dir, entrypoint string, args []string) ([]byte, error) { return []byte("cfg"), nil }
	config.VLoadAndValidateFn = func(c *config.HookConfig, data []byte) error { c.Version = "v1"; return nil }
	zz.Assert(hm.Init() == nil, "init_succeeds_when_all_configs_load")
	names := hm.GetHookNames()
	zz.Assert(len(names) == 2, "exactly_the_discovered_hooks")
	if len(names) == 2 {
		zz.Assert(names[0] < names[1], "hooks_loaded_in_lexical_order")
		zz.Assert(zz.Or(names[0] == sib, names[1] == sib), "hook_named_by_relative_path")
		zz.Assert(zz.Or(names[0] == dir+"/"+child, names[1] == dir+"/"+child), "hook_named_by_relative_path")
	}
	os.RemoveAll(tmp)
	zz.Reach("end")
}
