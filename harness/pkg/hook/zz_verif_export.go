package hook

// Overlay-only exporters for harnesses in packages above pkg/hook:
// constructors for state that is only reachable through unexported fields and
// the guarded stub of (*Hook).Run.  No logic under test lives here.

import (
	"context"

	"github.com/deckhouse/deckhouse/pkg/log"

	bctx "github.com/flant/shell-operator/pkg/hook/binding_context"
	"github.com/flant/shell-operator/pkg/hook/config"
	"github.com/flant/shell-operator/pkg/hook/controller"
	htypes "github.com/flant/shell-operator/pkg/hook/types"
	kubeeventsmanager "github.com/flant/shell-operator/pkg/kube_events_manager"
	schedulemanager "github.com/flant/shell-operator/pkg/schedule_manager"
	"github.com/flant/shell-operator/pkg/webhook/admission"
	"github.com/flant/shell-operator/pkg/webhook/conversion"
)

// VRunFn, when set, replaces the execution of the hook process.
var VRunFn func(h *Hook, bt htypes.BindingType, ctxs []bctx.BindingContext, labels map[string]string) (*Result, error)

func vRunStubActive() bool { return VRunFn != nil }

//verif:stub (*$R/pkg/hook.Hook).Run if vRunStubActive
func vRunStub(h *Hook, bt htypes.BindingType, context []bctx.BindingContext, logLabels map[string]string) (*Result, error) {
	return VRunFn(h, bt, context, logLabels)
}

// VRateWaitFn, when set, replaces Hook.RateLimitWait (the token bucket is
// third-party floating-point code outside the encodable fragment).
var VRateWaitFn func(h *Hook) error

func vRateStubActive() bool { return VRateWaitFn != nil }

//verif:stub (*$R/pkg/hook.Hook).RateLimitWait if vRateStubActive
func vRateStub(h *Hook, ctx context.Context) error {
	return VRateWaitFn(h)
}

// VNewManager builds a Manager holding the given hooks exactly as Init leaves
// it after loading them in this order.
func VNewManager(kmgr kubeeventsmanager.KubeEventsManager, smgr schedulemanager.ScheduleManager, wmgr *admission.WebhookManager, cmgr *conversion.WebhookManager, hooks ...*Hook) *Manager {
	hm := NewHookManager(&ManagerConfig{WorkingDir: "/hooks", TempDir: "/tmp", Kmgr: kmgr, Smgr: smgr, Wmgr: wmgr, Cmgr: cmgr, Logger: log.NewNop()})
	for _, h := range hooks {
		for _, binding := range h.Config.Bindings() {
			hm.hooksInOrder[binding] = append(hm.hooksInOrder[binding], h)
		}
		hm.hooksByName[h.Name] = h
		hm.hookNamesInOrder = append(hm.hookNamesInOrder, h.Name)
	}
	_ = hm.UpdateConversionChains()
	return hm
}

// VNewHook builds a loaded hook from an effective configuration, wiring its
// controllers the way loadHook does.
func VNewHook(name string, cfg *config.HookConfig, kmgr kubeeventsmanager.KubeEventsManager, smgr schedulemanager.ScheduleManager, wmgr *admission.WebhookManager, cmgr *conversion.WebhookManager) *Hook {
	h := NewHook(name, "/hooks/"+name, false, false, "", log.NewNop())
	h.Config = cfg
	h.RateLimiter = CreateRateLimiter(cfg)
	hc := controller.NewHookController()
	hc.InitKubernetesBindings(cfg.OnKubernetesEvents, kmgr, log.NewNop())
	hc.InitScheduleBindings(cfg.Schedules, smgr)
	hc.InitConversionBindings(cfg.KubernetesConversion, cmgr)
	hc.InitAdmissionBindings(cfg.KubernetesValidating, cfg.KubernetesMutating, wmgr)
	h.WithHookController(hc)
	h.WithTmpDir("/tmp")
	return h
}

// VSkipInit makes Manager.Init a no-op (the manager was built by VNewManager).
var VSkipInit bool

func vSkipInit() bool { return VSkipInit }

//verif:stub (*$R/pkg/hook.Manager).Init if vSkipInit
func vInitStub(hm *Manager) error { return nil }
