package object_patch

// C13 (typed half): operation documents are validated together and applied in
// order; decoding of bytes and the schema validator are cut (symbolic).

import (
	"errors"
	"strconv"

	"github.com/deckhouse/deckhouse/pkg/log"
	"github.com/go-openapi/spec"
	metav1 "k8s.io/apimachinery/pkg/apis/meta/v1"
	"k8s.io/apimachinery/pkg/types"

	zz "github.com/flant/shell-operator/pkg/zzverif"
)

var (
	vhOn       bool
	vhSpecs    []OperationSpec
	vhDecodeOK bool
	vhInvalid  []bool
	vhValidN   int
	vhExec     []string // "create:<i>" / "delete:<i>" / "patch:<i>" / "filter:<i>" by object name
	vhExecFail []bool
)

func vhStubsOn() bool { return vhOn }

// the decoding stub is off in the harness that runs the real JSON stream decoder
var vhRealDecode bool

func vhDecodeStubOn() bool { return vhOn && !vhRealDecode }
func vhYamlStubOn() bool   { return vhOn && vhRealDecode && !vhYamlCarrier }

// the stream under decoding is a YAML carrier: the real YAML loop runs on it
var vhYamlCarrier bool

// the YAML decoder (gopkg.in/yaml.v3) is outside the encodable fragment: in the
// stream harness it only sees streams the JSON decoder rejected, and rejects them too
//
//verif:stub $R/pkg/kube/object_patch.unmarshalFromYaml if vhYamlStubOn
func vhUnmarshalYaml(specs []byte) ([]OperationSpec, error) {
	return nil, errors.New("yaml: not a document stream")
}

//verif:stub $R/pkg/kube/object_patch.unmarshalFromJSONOrYAML if vhDecodeStubOn
func vhUnmarshal(specs []byte) ([]OperationSpec, error) {
	if !vhDecodeOK {
		return nil, errors.New("cannot decode")
	}
	return vhSpecs, nil
}

//verif:stub $R/pkg/kube/object_patch.ValidateOperationSpec if vhStubsOn
func vhValidate(obj any, s *spec.Schema, rootName string) error {
	k := vhValidN
	vhValidN++
	if k < len(vhInvalid) && vhInvalid[k] {
		return errors.New("document is invalid")
	}
	return nil
}

//verif:stub $R/pkg/kube/object_patch.GetSchema if vhStubsOn
func vhGetSchema(name string) *spec.Schema { return nil }

func vhRecord(kind, name string) error {
	k := len(vhExec)
	vhExec = append(vhExec, kind+":"+name)
	if k < len(vhExecFail) && vhExecFail[k] {
		return errors.New("api error")
	}
	return nil
}

//verif:stub (*$R/pkg/kube/object_patch.ObjectPatcher).executeCreateOperation if vhStubsOn
func vhExecCreate(o *ObjectPatcher, op *createOperation) error {
	return vhRecord("create", op.object.(string))
}

//verif:stub (*$R/pkg/kube/object_patch.ObjectPatcher).executeDeleteOperation if vhStubsOn
func vhExecDelete(o *ObjectPatcher, op *deleteOperation) error { return vhRecord("delete", op.name) }

//verif:stub (*$R/pkg/kube/object_patch.ObjectPatcher).executePatchOperation if vhStubsOn
func vhExecPatch(o *ObjectPatcher, op *patchOperation) error { return vhRecord("patch", op.name) }

//verif:stub (*$R/pkg/kube/object_patch.ObjectPatcher).executeFilterOperation if vhStubsOn
func vhExecFilter(o *ObjectPatcher, op *patchOperation) error { return vhRecord("filter", op.name) }

var vhOps = []OperationType{CreateOrUpdate, Create, CreateIfNotExists, Delete, DeleteInBackground, DeleteNonCascading, JQPatch, MergePatch, JSONPatch}

func VH_C13_operations() {
	vhOn = true
	n := zz.Len("ndocs", 0, zz.Param("maxdocs", 3))
	vhDecodeOK = !zz.Bool("undecodable")
	vhSpecs = make([]OperationSpec, n)
	vhInvalid = make([]bool, n)
	vhExecFail = make([]bool, n)
	vhValidN, vhExec = 0, nil
	kinds := make([]int, n)
	anyInvalid := false
	for i := 0; i < n; i++ {
		si := strconv.Itoa(i)
		kinds[i] = zz.Len("op"+si, 0, len(vhOps)-1)
		s := OperationSpec{Operation: vhOps[kinds[i]], ApiVersion: "v1", Kind: "Pod", Namespace: "ns", Name: "o" + si}
		s.Object = "o" + si
		s.Subresource = zz.OneOf("subresource"+si, "", "/status")
		s.IgnoreMissingObject = zz.Bool("ignore_missing" + si)
		s.IgnoreHookError = zz.Bool("ignore_hook_error" + si)
		s.JQFilter = ".a"
		s.MergePatch = "mp"
		s.JSONPatch = "jp"
		vhSpecs[i] = s
		vhInvalid[i] = zz.Bool("invalid" + si)
		if zz.Concretize(vhB(vhInvalid[i])) == 1 {
			anyInvalid = true
		}
		vhExecFail[i] = zz.Bool("apply_fails" + si)
	}
	ops, err := ParseOperations([]byte("docs"))
	if !vhDecodeOK || anyInvalid {
		zz.Assert(err != nil, "invalid_stream_is_rejected")
		zz.Assert(len(vhExec) == 0, "nothing_applied_while_parsing")
		zz.Reach("end")
		return
	}
	zz.Assert(err == nil, "valid_stream_parses")
	zz.Assert(len(ops) == n, "one_operation_per_document")
	if err != nil || len(ops) != n {
		return
	}
	// documented effect of each operation type
	for i, op := range ops {
		s := vhSpecs[i]
		switch o := op.(type) {
		case *createOperation:
			zz.Assert(kinds[i] <= 2, "create_document_gives_create_operation")
			zz.Assert(o.updateIfExists == (s.Operation == CreateOrUpdate), "create_or_update_updates_existing")
			zz.Assert(o.ignoreIfExists == (s.Operation == CreateIfNotExists), "create_if_not_exists_ignores_existing")
			zz.Assert(o.object == s.Object, "create_carries_object")
		case *deleteOperation:
			zz.Assert(kinds[i] >= 3 && kinds[i] <= 5, "delete_document_gives_delete_operation")
			want := map[OperationType]metav1.DeletionPropagation{Delete: metav1.DeletePropagationForeground, DeleteInBackground: metav1.DeletePropagationBackground, DeleteNonCascading: metav1.DeletePropagationOrphan}[s.Operation]
			zz.Assert(o.deletionPropagation == want, "delete_propagation_mode")
			zz.Assert(o.apiVersion == "v1" && o.kind == "Pod" && o.namespace == "ns" && o.name == s.Name, "delete_targets_object")
		case *patchOperation:
			zz.Assert(kinds[i] >= 6, "patch_document_gives_patch_operation")
			zz.Assert(o.subresource == s.Subresource, "patch_carries_subresource")
			zz.Assert(o.ignoreMissingObject == s.IgnoreMissingObject, "patch_carries_ignore_missing_object")
			zz.Assert(o.ignoreHookError == s.IgnoreHookError, "patch_carries_ignore_hook_error")
			zz.Assert(o.apiVersion == "v1" && o.kind == "Pod" && o.namespace == "ns" && o.name == s.Name, "patch_targets_object")
			switch s.Operation {
			case JQPatch:
				zz.Assert(o.hasFilterFn(), "jq_patch_has_filter")
			case MergePatch:
				zz.Assert(!o.hasFilterFn() && o.patchType == types.MergePatchType && o.patch == "mp", "merge_patch_type")
			case JSONPatch:
				zz.Assert(!o.hasFilterFn() && o.patchType == types.JSONPatchType && o.patch == "jp", "json_patch_type")
			}
		default:
			zz.Assert(false, "unknown_operation_kind")
		}
	}
	// on hook error only status patches marked ignoreHookError are eligible
	onErr := GetPatchStatusOperationsOnHookError(ops)
	wantOnErr := 0
	for i := range ops {
		if kinds[i] >= 6 {
			wantOnErr += zz.IteInt(zz.And(vhSpecs[i].Subresource == "/status", vhSpecs[i].IgnoreHookError), 1, 0)
		}
	}
	zz.Assert(len(onErr) == wantOnErr, "only_status_patches_survive_hook_error")

	patcher := NewObjectPatcher(nil, log.NewNop())
	execErr := patcher.ExecuteOperations(ops)
	zz.Assert(len(vhExec) == n, "each_operation_applied_once")
	anyFail := false
	for i := 0; i < n && i < len(vhExec); i++ {
		kind := "create"
		switch {
		case kinds[i] >= 3 && kinds[i] <= 5:
			kind = "delete"
		case kinds[i] == 6:
			kind = "filter"
		case kinds[i] >= 7:
			kind = "patch"
		}
		zz.Assert(vhExec[i] == kind+":o"+strconv.Itoa(i), "operations_applied_in_document_order")
		anyFail = zz.Or(anyFail, vhExecFail[i])
	}
	zz.Assert((execErr != nil) == anyFail, "apply_errors_are_reported")
	zz.Reach("end")
}

func vhB(b bool) int {
	if b {
		return 1
	}
	return 0
}


// VH_C13_stream: the real JSON stream decoder (unmarshalFromJSONOrYAML ->
// unmarshalFromJson) over a stream of documents whose optional members are
// present or absent: every document is decoded on its own (a member one
// document omits has its zero value whatever earlier documents said), in
// order, one specification per document; an undecodable stream yields an error
// and no specification.
func VH_C13_stream() {
	vhOn, vhRealDecode = true, true
	n := zz.Len("ndocs", 0, zz.Param("maxdocs", 3))
	// the same documents written as JSON or as YAML
	asYaml := zz.Concretize(vhB(zz.Bool("written_as_yaml"))) == 1
	vhYamlCarrier = asYaml
	malformedAt := -1
	if !asYaml && zz.Bool("malformed") {
		malformedAt = zz.Len("malformed_at", 0, n)
	}
	docs := make([]map[string]any, n)
	want := make([]OperationSpec, n)
	for i := 0; i < n; i++ {
		si := strconv.Itoa(i)
		op := zz.OneOf("op"+si, string(Create), string(Delete), string(MergePatch), string(JQPatch))
		d := map[string]any{"operation": op, "kind": "Pod", "name": "o" + si}
		w := OperationSpec{Operation: OperationType(op), Kind: "Pod", Name: "o" + si}
		if i == 1 && zz.Bool("second_document_without_operation") {
			// an (invalid) document is still a document: it is decoded, and rejected later
			delete(d, "operation")
			w.Operation = ""
		}
		if zz.Bool("has_namespace" + si) {
			d["namespace"] = "ns" + si
			w.Namespace = "ns" + si
		}
		if zz.Bool("has_subresource" + si) {
			d["subresource"] = "/status"
			w.Subresource = "/status"
		}
		if zz.Bool("has_ignore_missing" + si) {
			v := zz.Bool("ignore_missing" + si)
			d["ignoreMissingObject"] = v
			w.IgnoreMissingObject = v
		}
		if i == 0 {
			// members only the first document carries
			d["apiVersion"] = "v1"
			w.ApiVersion = "v1"
			d["jqFilter"] = ".a"
			w.JQFilter = ".a"
			d["ignoreHookError"] = true
			w.IgnoreHookError = true
			d["mergePatch"] = "mp"
			w.MergePatch = "mp"
		}
		docs[i], want[i] = d, w
	}
	var stream []byte
	if asYaml {
		stream = zz.YAMLDocs(docs...)
	} else {
		stream = zz.JSONDocs(malformedAt, docs...)
	}
	specs, err := unmarshalFromJSONOrYAML(stream)
	if malformedAt >= 0 {
		zz.Assert(err != nil, "undecodable_stream_is_an_error")
		zz.Assert(len(specs) == 0, "undecodable_stream_yields_nothing")
		vhOn, vhRealDecode = false, false
		zz.Reach("end")
		return
	}
	zz.Assert(err == nil, "valid_stream_decodes")
	zz.Assert(len(specs) == n, "one_specification_per_document")
	for i := 0; i < len(specs) && i < n; i++ {
		g, w := specs[i], want[i]
		zz.Assert(g.Operation == w.Operation && g.Kind == w.Kind && g.Name == w.Name, "documents_decoded_in_order")
		zz.Assert(g.Namespace == w.Namespace, "omitted_namespace_is_empty")
		zz.Assert(g.Subresource == w.Subresource, "omitted_subresource_is_empty")
		zz.Assert(g.IgnoreMissingObject == w.IgnoreMissingObject, "omitted_ignore_missing_is_false")
		zz.Assert(g.ApiVersion == w.ApiVersion && g.JQFilter == w.JQFilter, "omitted_strings_are_empty")
		zz.Assert(g.IgnoreHookError == w.IgnoreHookError, "omitted_ignore_hook_error_is_false")
		mp, _ := g.MergePatch.(string)
		wp, _ := w.MergePatch.(string)
		zz.Assert(mp == wp && (g.MergePatch == nil) == (w.MergePatch == nil), "omitted_patch_is_nil")
	}
	vhOn, vhRealDecode, vhYamlCarrier = false, false, false
	zz.Reach("end")
}
