package object_patch

// C13 (iii): the documented effect of each operation, on the real
// executeCreateOperation / executeDeleteOperation / executePatchOperation /
// executeFilterOperation, over a fake cluster behind the dynamic client
// interface (the API server and client-go transport are outside).
//
// Cuts inside third-party code, engine side only (native replay runs the real
// functions): retry.RetryOnConflict and wait.PollUntilContextTimeout are bounded
// loops over the same callbacks, equality.Semantic.DeepEqual compares the
// objects' content, the JSON encoder of unstructured objects succeeds.

import (
	"context"
	"strings"
	"time"

	apierrors "k8s.io/apimachinery/pkg/api/errors"
	metav1 "k8s.io/apimachinery/pkg/apis/meta/v1"
	"k8s.io/apimachinery/pkg/apis/meta/v1/unstructured"
	"k8s.io/apimachinery/pkg/runtime/schema"
	"k8s.io/apimachinery/pkg/types"
	"k8s.io/apimachinery/pkg/util/wait"
	"k8s.io/apimachinery/pkg/watch"
	"k8s.io/client-go/dynamic"
	"k8s.io/client-go/kubernetes"

	"github.com/deckhouse/deckhouse/pkg/log"

	zz "github.com/flant/shell-operator/pkg/zzverif"
)

// ---- fake cluster -----------------------------------------------------------

type vhCall struct {
	resource    string // version/resource the call was addressed to
	verb        string
	name        string
	subresource string
	patchType   types.PatchType
	patchBytes  string
	propagation string
}

type vhCluster struct {
	kubernetes.Interface
	objects        map[string]*unstructured.Unstructured // key: namespace/name
	calls          []vhCall
	conflictsLeft  int // Update answers Conflict this many times
	finalizerPolls int // a foreground-deleted object is still seen by this many Gets
	lingering      map[string]int
	failWith       string // "" or a verb that answers an internal error
}

func (c *vhCluster) Dynamic() dynamic.Interface { return &vhDyn{c} }
func (c *vhCluster) GroupVersionResource(apiVersion, kind string) (schema.GroupVersionResource, error) {
	return schema.GroupVersionResource{Version: apiVersion, Resource: strings.ToLower(kind) + "s"}, nil
}

type vhDyn struct{ c *vhCluster }

func (d *vhDyn) Resource(r schema.GroupVersionResource) dynamic.NamespaceableResourceInterface {
	return &vhRes{c: d.c, gr: schema.GroupResource{Resource: r.Resource}, res: r.Version + "/" + r.Resource}
}

type vhRes struct {
	c   *vhCluster
	gr  schema.GroupResource
	res string
	ns  string
}

func (r *vhRes) Namespace(ns string) dynamic.ResourceInterface {
	return &vhRes{c: r.c, gr: r.gr, res: r.res, ns: ns}
}

func vhSub(s []string) string { return strings.Join(s, ",") }

func (r *vhRes) Create(_ context.Context, obj *unstructured.Unstructured, _ metav1.CreateOptions, sub ...string) (*unstructured.Unstructured, error) {
	key := r.ns + "/" + obj.GetName()
	r.c.calls = append(r.c.calls, vhCall{resource: r.res, verb: "create", name: key, subresource: vhSub(sub)})
	if r.c.failWith == "create" {
		return nil, apierrors.NewInternalError(context.Canceled)
	}
	if _, ok := r.c.objects[key]; ok {
		return nil, apierrors.NewAlreadyExists(r.gr, obj.GetName())
	}
	r.c.objects[key] = obj.DeepCopy()
	return obj, nil
}

func (r *vhRes) Update(_ context.Context, obj *unstructured.Unstructured, _ metav1.UpdateOptions, sub ...string) (*unstructured.Unstructured, error) {
	key := r.ns + "/" + obj.GetName()
	r.c.calls = append(r.c.calls, vhCall{resource: r.res, verb: "update", name: key, subresource: vhSub(sub)})
	if _, ok := r.c.objects[key]; !ok {
		return nil, apierrors.NewNotFound(r.gr, obj.GetName())
	}
	if r.c.conflictsLeft > 0 {
		r.c.conflictsLeft--
		return nil, apierrors.NewConflict(r.gr, obj.GetName(), context.Canceled)
	}
	r.c.objects[key] = obj.DeepCopy()
	return obj, nil
}

func (r *vhRes) Delete(_ context.Context, name string, opts metav1.DeleteOptions, sub ...string) error {
	key := r.ns + "/" + name
	pol := ""
	if opts.PropagationPolicy != nil {
		pol = string(*opts.PropagationPolicy)
	}
	r.c.calls = append(r.c.calls, vhCall{resource: r.res, verb: "delete", name: key, subresource: vhSub(sub), propagation: pol})
	if r.c.failWith == "delete" {
		return apierrors.NewInternalError(context.Canceled)
	}
	if _, ok := r.c.objects[key]; !ok {
		return apierrors.NewNotFound(r.gr, name)
	}
	delete(r.c.objects, key)
	if pol == string(metav1.DeletePropagationForeground) && r.c.finalizerPolls > 0 {
		r.c.lingering[key] = r.c.finalizerPolls
	}
	return nil
}

func (r *vhRes) Get(_ context.Context, name string, _ metav1.GetOptions, sub ...string) (*unstructured.Unstructured, error) {
	key := r.ns + "/" + name
	r.c.calls = append(r.c.calls, vhCall{resource: r.res, verb: "get", name: key, subresource: vhSub(sub)})
	if n := r.c.lingering[key]; n > 0 {
		r.c.lingering[key] = n - 1
		return &unstructured.Unstructured{Object: map[string]any{"metadata": map[string]any{"name": name, "namespace": r.ns}}}, nil
	}
	o, ok := r.c.objects[key]
	if !ok {
		return nil, apierrors.NewNotFound(r.gr, name)
	}
	return o.DeepCopy(), nil
}

func (r *vhRes) Patch(_ context.Context, name string, pt types.PatchType, data []byte, _ metav1.PatchOptions, sub ...string) (*unstructured.Unstructured, error) {
	key := r.ns + "/" + name
	r.c.calls = append(r.c.calls, vhCall{resource: r.res, verb: "patch", name: key, subresource: vhSub(sub), patchType: pt, patchBytes: string(data)})
	if r.c.failWith == "patch" {
		return nil, apierrors.NewInternalError(context.Canceled)
	}
	o, ok := r.c.objects[key]
	if !ok {
		return nil, apierrors.NewNotFound(r.gr, name)
	}
	o.Object["patched"] = string(pt)
	return o, nil
}

func (r *vhRes) UpdateStatus(context.Context, *unstructured.Unstructured, metav1.UpdateOptions) (*unstructured.Unstructured, error) {
	panic("not used by the object patcher")
}
func (r *vhRes) DeleteCollection(context.Context, metav1.DeleteOptions, metav1.ListOptions) error {
	panic("not used by the object patcher")
}
func (r *vhRes) List(context.Context, metav1.ListOptions) (*unstructured.UnstructuredList, error) {
	panic("not used by the object patcher")
}
func (r *vhRes) Watch(context.Context, metav1.ListOptions) (watch.Interface, error) {
	panic("not used by the object patcher")
}
func (r *vhRes) Apply(context.Context, string, *unstructured.Unstructured, metav1.ApplyOptions, ...string) (*unstructured.Unstructured, error) {
	panic("not used by the object patcher")
}
func (r *vhRes) ApplyStatus(context.Context, string, *unstructured.Unstructured, metav1.ApplyOptions) (*unstructured.Unstructured, error) {
	panic("not used by the object patcher")
}

// ---- engine-side cuts in third-party code ------------------------------------

//verif:enginestub k8s.io/client-go/util/retry.RetryOnConflict
func vhRetryOnConflict(_ wait.Backoff, fn func() error) error {
	var err error
	for i := 0; i < 4; i++ {
		err = fn()
		if !apierrors.IsConflict(err) {
			return err
		}
	}
	return err
}

//verif:enginestub k8s.io/apimachinery/pkg/util/wait.PollUntilContextTimeout
func vhPollUntil(ctx context.Context, _, _ time.Duration, immediate bool, cond func(context.Context) (bool, error)) error {
	for i := 0; i < 4; i++ {
		done, err := cond(ctx)
		if err != nil {
			return err
		}
		if done {
			return nil
		}
	}
	return context.DeadlineExceeded
}

func vhContent(o any) string {
	u, ok := o.(*unstructured.Unstructured)
	if !ok || u == nil {
		return "?"
	}
	v, _ := u.Object["v"].(string)
	return v
}

//verif:enginestub (k8s.io/apimachinery/third_party/forked/golang/reflect.Equalities).DeepEqual
func vhSemanticDeepEqual(_ any, a1, a2 any) bool { return vhContent(a1) == vhContent(a2) }

// the JSON text of the updated object is produced and dropped by the patcher
//
//verif:enginestub (k8s.io/apimachinery/pkg/apis/meta/v1/unstructured.unstructuredJSONScheme).Encode
func vhEncodeUnstructured(_ any, _ any, _ any) error { return nil }

func vhPod(name, v string) map[string]any {
	return map[string]any{"apiVersion": "v1", "kind": "Pod", "metadata": map[string]any{"name": name, "namespace": "ns"}, "v": v}
}

// VH_C13_execute: one operation of every documented kind against a cluster in
// which the target object exists or not.
func VH_C13_execute() {
	exists := zz.Bool("object_exists")
	cl := &vhCluster{objects: map[string]*unstructured.Unstructured{}, lingering: map[string]int{}}
	if exists {
		cl.objects["ns/o"] = &unstructured.Unstructured{Object: vhPod("o", "old")}
	}
	cl.conflictsLeft = zz.Len("update_conflicts", 0, 1)
	cl.finalizerPolls = zz.Len("finalizer_polls", 0, 1)
	o := NewObjectPatcher(cl, log.NewNop())

	// the patcher is long-lived: an earlier operation may have named the same kind in another
	// API group/version (Event in v1 and events.k8s.io/v1), or another kind of the same version
	earlier := zz.Len("earlier_operation", 0, 2)
	if earlier > 0 {
		pre := OperationSpec{Operation: CreateIfNotExists, ApiVersion: "other.io/v1", Kind: "Pod", Namespace: "ns", Name: "p0"}
		if earlier == 2 {
			pre.ApiVersion, pre.Kind = "v1", "Node"
		}
		pre.Object = map[string]any{"apiVersion": pre.ApiVersion, "kind": pre.Kind, "metadata": map[string]any{"name": "p0", "namespace": "ns"}, "v": "pre"}
		zz.Assert(o.ExecuteOperation(NewFromOperationSpec(pre)) == nil, "earlier_operation_succeeds")
		for _, c := range cl.calls {
			zz.Assert(c.resource == pre.ApiVersion+"/"+strings.ToLower(pre.Kind)+"s", "operation_addresses_the_resource_of_its_own_apiversion_and_kind")
		}
		cl.calls = nil
	}
	kind := zz.Len("operation", 0, len(vhOps)-1)
	spec := OperationSpec{Operation: vhOps[kind], ApiVersion: "v1", Kind: "Pod", Namespace: "ns", Name: "o"}
	spec.Object = vhPod("o", "new")
	spec.Subresource = zz.ConcretizeStr(zz.OneOf("subresource", "", "status"))
	spec.IgnoreMissingObject = zz.Bool("ignore_missing_object")
	spec.MergePatch = map[string]any{"v": "merged"}
	spec.JSONPatch = []any{map[string]any{"op": "replace", "path": "/v", "value": "json"}}
	spec.JQFilter = `.v = "patched"`
	op := NewFromOperationSpec(spec)
	zz.Assert(op != nil, "operation_is_built")
	err := o.ExecuteOperation(op)

	for _, c := range cl.calls {
		zz.Assert(c.resource == "v1/pods", "operation_addresses_the_resource_of_its_own_apiversion_and_kind")
	}
	cur, still := cl.objects["ns/o"]
	count := func(verb string) int {
		n := 0
		for _, c := range cl.calls {
			if c.verb == verb {
				n++
			}
		}
		return n
	}
	switch vhOps[kind] {
	case Create:
		zz.Assert(count("create") == 1, "create_is_attempted_once")
		if exists {
			zz.Assert(err != nil, "create_of_existing_object_fails")
			zz.Assert(still && vhContent(cur) == "old", "failed_create_leaves_object_unchanged")
		} else {
			zz.Assert(err == nil && still && vhContent(cur) == "new", "create_creates_the_object")
		}
	case CreateIfNotExists:
		zz.Assert(err == nil, "create_if_not_exists_never_fails_on_existing")
		zz.Assert(still && vhContent(cur) == map[bool]string{true: "old", false: "new"}[exists], "create_if_not_exists_keeps_existing_object")
		zz.Assert(count("update") == 0, "create_if_not_exists_does_not_update")
	case CreateOrUpdate:
		zz.Assert(err == nil, "create_or_update_succeeds")
		zz.Assert(still && vhContent(cur) == "new", "create_or_update_ends_with_new_content")
	case Delete, DeleteInBackground, DeleteNonCascading:
		want := map[OperationType]string{Delete: "Foreground", DeleteInBackground: "Background", DeleteNonCascading: "Orphan"}[vhOps[kind]]
		zz.Assert(count("delete") == 1, "delete_is_attempted_once")
		for _, c := range cl.calls {
			if c.verb == "delete" {
				zz.Assert(c.propagation == want, "delete_variant_uses_its_propagation_policy")
				zz.Assert(c.name == "ns/o", "delete_addresses_the_named_object")
			}
		}
		zz.Assert(err == nil, "delete_ignores_a_missing_object_and_succeeds_otherwise")
		zz.Assert(!still, "object_is_gone_after_delete")
		if vhOps[kind] == Delete && exists {
			zz.Assert(cl.lingering["ns/o"] == 0, "foreground_delete_waits_until_the_object_is_gone")
		}
		if vhOps[kind] != Delete {
			zz.Assert(count("get") == 0, "background_and_orphan_deletes_do_not_wait")
		}
	case MergePatch, JSONPatch:
		wantType := map[OperationType]types.PatchType{MergePatch: types.MergePatchType, JSONPatch: types.JSONPatchType}[vhOps[kind]]
		wantBytes := map[OperationType]string{MergePatch: `{"v":"merged"}`, JSONPatch: `[{"op":"replace","path":"/v","value":"json"}]`}[vhOps[kind]]
		zz.Assert(count("patch") == 1, "patch_is_sent_once")
		for _, c := range cl.calls {
			if c.verb == "patch" {
				zz.Assert(c.patchType == wantType, "patch_kind_uses_its_patch_type")
				zz.Assert(c.patchBytes == wantBytes, "patch_content_is_the_documents_patch")
				zz.Assert(c.subresource == spec.Subresource, "patch_goes_to_the_subresource")
				zz.Assert(c.name == "ns/o", "patch_addresses_the_named_object")
			}
		}
		if exists {
			zz.Assert(err == nil && vhContent(cur) == "old" && cur.Object["patched"] == string(wantType), "patch_applied_to_existing_object")
		} else {
			zz.Assert((err == nil) == spec.IgnoreMissingObject, "missing_object_fails_unless_ignored")
		}
	case JQPatch:
		if exists {
			zz.Assert(err == nil, "jq_patch_of_existing_object_succeeds")
			zz.Assert(still && vhContent(cur) == "patched", "jq_patch_result_is_stored")
			for _, c := range cl.calls {
				if c.verb == "update" {
					zz.Assert(c.subresource == spec.Subresource, "jq_patch_update_goes_to_the_subresource")
				}
			}
		} else {
			zz.Assert((err == nil) == spec.IgnoreMissingObject, "missing_object_fails_unless_ignored")
			zz.Assert(count("update") == 0, "nothing_updated_for_a_missing_object")
		}
	}
	zz.Reach("end")
}
