package object_patch

import (
	sdkpkg "github.com/deckhouse/module-sdk/pkg"
)

// Guarded stubs for harnesses above this package (operator glue).
var VParseOpsFn func(specBytes []byte) ([]sdkpkg.PatchCollectorOperation, error)

func vParseOpsActive() bool { return VParseOpsFn != nil }

//verif:stub $R/pkg/kube/object_patch.ParseOperations if vParseOpsActive
func vParseOps(specBytes []byte) ([]sdkpkg.PatchCollectorOperation, error) {
	return VParseOpsFn(specBytes)
}

var VExecOpsFn func(ops []sdkpkg.PatchCollectorOperation) error

func vExecOpsActive() bool { return VExecOpsFn != nil }

//verif:stub (*$R/pkg/kube/object_patch.ObjectPatcher).ExecuteOperations if vExecOpsActive
func vExecOps(o *ObjectPatcher, ops []sdkpkg.PatchCollectorOperation) error { return VExecOpsFn(ops) }

// VStatusPatch builds a patch operation on the status subresource (exporter).
func VStatusPatch(name string, ignoreHookError bool) sdkpkg.PatchCollectorOperation {
	return NewMergePatchOperation("p", "v1", "Pod", "ns", name, WithSubresource("/status"), withIgnoreHookError(ignoreHookError))
}

// VOpName returns the object name of a patch operation (exporter).
func VOpName(op sdkpkg.PatchCollectorOperation) string {
	if p, ok := op.(*patchOperation); ok {
		return p.name
	}
	return ""
}
