package kubeeventsmanager

// C01: no change is lost between Synchronization and later Events (thread
// model: informer thread, Synchronization/unlock thread, optional other
// snapshot reader, event consumer callback).
//
// Environment contract (client-go list+watch): the informer delivers changes
// of an object one after another, in order, on one thread.

import (
	"context"
	"strconv"

	"github.com/deckhouse/deckhouse/pkg/log"
	"k8s.io/apimachinery/pkg/apis/meta/v1/unstructured"

	kemtypes "github.com/flant/shell-operator/pkg/kube_events_manager/types"
	"github.com/flant/shell-operator/pkg/metric"
	zz "github.com/flant/shell-operator/pkg/zzverif"
)

func vhC01Object(state int) *unstructured.Unstructured {
	return &unstructured.Unstructured{Object: map[string]any{
		"apiVersion": "v1", "kind": "Pod",
		"metadata": map[string]any{"name": "p", "namespace": "ns"},
		"v":        "state" + strconv.Itoa(state),
	}}
}

// vhStateOf: which state does this stored result describe (by checksum)?
func vhStateOf(r kemtypes.ObjectAndFilterResult, sums []string) int {
	for i, s := range sums {
		if r.Metadata.Checksum == s {
			return i
		}
	}
	return -1
}

func VH_C01_sync_then_events() {
	k := zz.Len("changes", 1, zz.Param("maxchanges", 2))
	withReader := zz.Param("other_reader", 1) == 1 && zz.Bool("other_snapshot_reader")

	// delivered events, as the consumer sees them: the state each event carries
	var delivered []int
	var deliveredBeforeUnlock int
	unlockStarted := false
	sums := make([]string, k+1)
	for i := 0; i <= k; i++ {
		r, err := applyFilter("", nil, nil, vhC01Object(i))
		zz.Assume(err == nil)
		sums[i] = r.Metadata.Checksum
	}

	mc := &MonitorConfig{Kind: "Pod", ApiVersion: "v1", KeepFullObjectsInMemory: true}
	mc.Metadata.MonitorId = "mon"
	mc.WithEventTypes(nil)
	mon := NewMonitor(context.Background(), nil, &metric.VFakeStorage{}, mc, func(ev kemtypes.KubeEvent) {
		// in the operator the callback is a send into the events channel: a visible
		// operation at which the sender can be preempted before the event is enqueued
		zz.Yield()
		if !unlockStarted {
			deliveredBeforeUnlock++
		}
		for _, o := range ev.Objects {
			delivered = append(delivered, vhStateOf(o, sums))
		}
	}, log.NewNop())
	ei := newResourceInformer("", "", &resourceInformerConfig{mstor: &metric.VFakeStorage{}, eventCb: mon.eventCb, monitor: mc, logger: log.NewNop()})
	mon.ResourceInformers = append(mon.ResourceInformers, ei)
	// the object exists in state 0 when the informer lists it
	first, _ := applyFilter("", nil, nil, vhC01Object(0))
	ei.cachedObjects["ns/Pod/p"] = first

	// informer thread: k modifications, one after another
	informerDone := false
	buffered := make([]bool, k+1)
	snapshotsDoneAt := make([]int, k+1) // number of completed Snapshot() calls when change i had been handled
	snapshotsDone := 0
	// the shared informer replays its store to a new handler as Added notifications:
	// the first change may arrive as an Added for the object that was listed already
	firstAsAdded := zz.Bool("first_change_arrives_as_added")
	zz.Go("informer", func() {
		for i := 1; i <= k; i++ {
			if i == 1 && firstAsAdded {
				ei.OnAdd(vhC01Object(i), zz.Bool("added_is_in_initial_list"))
			} else {
				ei.OnUpdate(nil, vhC01Object(i))
			}
			for _, ev := range ei.eventBuf {
				for _, o := range ev.Objects {
					if vhStateOf(o, sums) == i {
						buffered[i] = true
					}
				}
			}
			snapshotsDoneAt[i] = snapshotsDone
		}
		informerDone = true
	})
	readerDone := !withReader
	if withReader {
		zz.Go("reader", func() {
			mon.Snapshot()
			snapshotsDone++
			readerDone = true
		})
	}

	// Synchronization: the hook is given this view, runs, and on success events are unlocked
	view := mon.Snapshot()
	snapshotsDone++
	zz.Yield() // the hook runs
	unlockStarted = true
	mon.EnableKubeEventCb()

	zz.WaitUntil(func() bool { return informerDone && readerDone })

	zz.Assert(deliveredBeforeUnlock == 0, "no_event_before_synchronization_completed")
	zz.Assert(len(view) == 1, "synchronization_view_has_the_object")
	j := 0
	if len(view) == 1 {
		j = vhStateOf(view[0], sums)
	}
	zz.Assert(j >= 0 && j <= k, "view_is_a_state_of_the_object")
	// every change after the view arrives, in order; changes already in the view may be repeated
	stillBuffered := make([]bool, k+1)
	for _, ev := range ei.eventBuf {
		for _, o := range ev.Objects {
			if s := vhStateOf(o, sums); s >= 0 {
				stillBuffered[s] = true
			}
		}
	}
	lostOnlyByReset := true
	anyLost := false
	for i := j + 1; i <= k; i++ {
		got := false
		for _, d := range delivered {
			if d == i {
				got = true
			}
		}
		if !got {
			anyLost = true
			// dropped from the buffer by a snapshot reader that finished after it was buffered?
			if !(buffered[i] && !stillBuffered[i] && snapshotsDone > snapshotsDoneAt[i]) {
				lostOnlyByReset = false
			}
		}
	}
	zz.Class("dropped_by_snapshot_buffer_reset", anyLost && lostOnlyByReset)
	zz.Assert(!anyLost, "every_later_change_is_delivered")
	for i := 1; i < len(delivered); i++ {
		zz.Assert(delivered[i] == delivered[i-1]+1, "events_arrive_in_order_without_gaps")
	}
	if len(delivered) > 0 {
		zz.Assert(delivered[len(delivered)-1] == k, "last_event_is_the_final_state")
		zz.Assert(delivered[0] <= j+1, "no_gap_after_the_synchronization_view")
	}
	// what snapshots show now is the final state
	final := mon.Snapshot()
	zz.Assert(len(final) == 1 && vhStateOf(final[0], sums) == k, "snapshot_shows_final_state")
	zz.Reach("end")
}
