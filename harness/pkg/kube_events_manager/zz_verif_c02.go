package kubeeventsmanager

// C02 (b): the monitor's snapshot is exactly the set of objects known to its
// informers, each once, ordered by namespace/name only.

import (
	"context"
	"strconv"

	"github.com/deckhouse/deckhouse/pkg/log"
	"k8s.io/apimachinery/pkg/apis/meta/v1/unstructured"

	"k8s.io/client-go/tools/cache"

	"github.com/flant/shell-operator/pkg/filter/jq"
	kemtypes "github.com/flant/shell-operator/pkg/kube_events_manager/types"
	"github.com/flant/shell-operator/pkg/metric"
	zz "github.com/flant/shell-operator/pkg/zzverif"
)

func vhC02Object(ns, name, state string) *unstructured.Unstructured {
	return &unstructured.Unstructured{Object: map[string]any{
		"apiVersion": "v1", "kind": "Pod",
		"metadata": map[string]any{"name": name, "namespace": ns},
		"v":        state,
	}}
}

func VH_C02_monitor_snapshot() {
	mc := &MonitorConfig{Kind: "Pod", ApiVersion: "v1", KeepFullObjectsInMemory: zz.Bool("keep_full_objects")}
	mc.Metadata.MonitorId = "mon"
	mc.WithEventTypes(nil)
	// with a filter that projects the changing part away every Modified is suppressed,
	// yet the snapshot has to show the current object
	if zz.Bool("filter_projects_the_change_away") {
		mc.JqFilter = "{a: .kind}"
	}
	mon := NewMonitor(context.Background(), nil, &metric.VFakeStorage{}, mc, func(ev kemtypes.KubeEvent) {}, log.NewNop())
	mk := func(ns string) *resourceInformer {
		return newResourceInformer(ns, "", &resourceInformerConfig{mstor: &metric.VFakeStorage{}, eventCb: mon.eventCb, monitor: mc, logger: log.NewNop()})
	}
	// a static informer for ns-a and a dynamic one for ns-b
	stat, dyn := mk("ns-a"), mk("ns-b")
	mon.ResourceInformers = append(mon.ResourceInformers, stat)
	mon.VaryingInformers.Store("ns-b", []*resourceInformer{dyn})

	// history: up to n add/modify/delete events over a pool of objects
	type obj struct{ ns, name string }
	pool := []obj{{"ns-a", "p1"}, {"ns-a", "p2"}, {"ns-b", "p1"}, {"ns-b", "p0"}}
	present := make([]bool, len(pool))
	state := make([]string, len(pool))
	n := zz.Len("events", 0, zz.Param("maxevents", 3))
	for e := 0; e < n; e++ {
		se := strconv.Itoa(e)
		i := zz.Len("object"+se, 0, len(pool)-1)
		kind := zz.Len("kind"+se, 0, 3)
		st := zz.OneOf("state"+se, "x", "y")
		inf := stat
		if pool[i].ns == "ns-b" {
			inf = dyn
		}
		o := vhC02Object(pool[i].ns, pool[i].name, st)
		switch kind {
		case 0:
			inf.OnAdd(o, zz.Bool("added_is_in_initial_list"+se))
			present[i], state[i] = true, st
		case 1:
			inf.OnUpdate(nil, o)
			present[i], state[i] = true, st
		case 2:
			inf.OnDelete(o)
			present[i] = false
		case 3:
			// a deletion noticed only by a re-list arrives as a tombstone
			inf.OnDelete(cache.DeletedFinalStateUnknown{Key: pool[i].ns + "/" + pool[i].name, Obj: o})
			present[i] = false
		}
	}
	zz.MapOrder(zz.Param("maporder", 2))
	snap := mon.Snapshot()
	zz.MapOrder(0)
	want := 0
	for i := range pool {
		cnt := 0
		for _, s := range snap {
			if s.Metadata.ResourceId == pool[i].ns+"/Pod/"+pool[i].name {
				cnt++
				ref, err := applyFilter(mc.JqFilter, jq.NewFilter(), nil, vhC02Object(pool[i].ns, pool[i].name, state[i]))
				zz.Assume(err == nil)
				zz.Assert(s.Metadata.Checksum == ref.Metadata.Checksum, "snapshot_shows_current_state")
				if s.Object != nil {
					v, _ := s.Object.Object["v"].(string)
					zz.Assert(v == state[i], "snapshot_object_is_the_current_object")
				}
				zz.Assert((s.Object != nil) == mc.KeepFullObjectsInMemory, "full_object_kept_iff_configured")
			}
		}
		if present[i] {
			want++
			zz.Assert(cnt == 1, "each_known_object_once")
		} else {
			zz.Assert(cnt == 0, "deleted_or_unknown_object_absent")
		}
	}
	zz.Assert(len(snap) == want, "snapshot_is_exactly_the_known_objects")
	// order depends on namespace and name only
	for i := 1; i < len(snap); i++ {
		zz.Assert(snap[i-1].Metadata.ResourceId < snap[i].Metadata.ResourceId, "snapshot_sorted_by_namespace_and_name")
	}
	zz.Reach("end")
}
