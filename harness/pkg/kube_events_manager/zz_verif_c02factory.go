package kubeeventsmanager

// C02 (d): "once the cluster is quiet the snapshots equal the real cluster state"
// needs the shared informer behind a resource informer to keep running for as
// long as that resource informer lives.  FactoryStore shares one client-go
// informer between all resource informers with the same index: the shared
// informer must run while at least one of them is registered - whichever of
// them was started first, whichever context is cancelled - and must be stopped
// and forgotten when the last one is gone (a later Start builds a new one).
//
// Real code: FactoryStore.Start / get / add / Stop.  client-go's dynamic shared
// informer factory is replaced in the engine by a fake with the same interface
// (handlers registered, Run blocks until its stop channel closes, HasSynced once
// running, IsStopped afterwards); wait.PollUntilContextCancel waits until the same
// condition holds or the context ends.  The goroutine of resourceInformer.start that calls
// Stop when the informer's context ends is played by the harness.

import (
	"context"
	"strconv"
	"time"

	metav1 "k8s.io/apimachinery/pkg/apis/meta/v1"
	"k8s.io/apimachinery/pkg/runtime/schema"
	"k8s.io/client-go/dynamic"
	"k8s.io/client-go/dynamic/dynamicinformer"
	"k8s.io/client-go/informers"
	"k8s.io/client-go/tools/cache"

	zz "github.com/flant/shell-operator/pkg/zzverif"
)

type vhFakeReg struct{ id int }

func (vhFakeReg) HasSynced() bool { return true }

type vhFakeSharedInformer struct {
	cache.SharedIndexInformer
	handlers map[int]cache.ResourceEventHandler
	next     int
	started  bool
	stopped  bool
}

func (f *vhFakeSharedInformer) AddEventHandler(h cache.ResourceEventHandler) (cache.ResourceEventHandlerRegistration, error) {
	f.next++
	f.handlers[f.next] = h
	return vhFakeReg{f.next}, nil
}

func (f *vhFakeSharedInformer) RemoveEventHandler(r cache.ResourceEventHandlerRegistration) error {
	delete(f.handlers, r.(vhFakeReg).id)
	return nil
}
func (f *vhFakeSharedInformer) SetWatchErrorHandler(cache.WatchErrorHandler) error { return nil }
func (f *vhFakeSharedInformer) HasSynced() bool                                    { return f.started }
func (f *vhFakeSharedInformer) IsStopped() bool                                    { return f.stopped }
func (f *vhFakeSharedInformer) Run(stopCh <-chan struct{}) {
	f.started = true
	<-stopCh
	f.stopped = true
}

type vhFakeGeneric struct{ inf *vhFakeSharedInformer }

func (g vhFakeGeneric) Informer() cache.SharedIndexInformer { return g.inf }
func (g vhFakeGeneric) Lister() cache.GenericLister         { return nil }

type vhFakeFactory struct {
	dynamicinformer.DynamicSharedInformerFactory
	inf *vhFakeSharedInformer
}

func (f *vhFakeFactory) ForResource(schema.GroupVersionResource) informers.GenericInformer {
	return vhFakeGeneric{f.inf}
}

var vhFactoriesMade []*vhFakeSharedInformer

//verif:enginestub k8s.io/client-go/dynamic/dynamicinformer.NewFilteredDynamicSharedInformerFactory
func vhNewFactory(_ dynamic.Interface, _ time.Duration, _ string, _ dynamicinformer.TweakListOptionsFunc) dynamicinformer.DynamicSharedInformerFactory {
	inf := &vhFakeSharedInformer{handlers: map[int]cache.ResourceEventHandler{}}
	vhFactoriesMade = append(vhFactoriesMade, inf)
	return &vhFakeFactory{inf: inf}
}

//verif:enginestub k8s.io/apimachinery/pkg/util/wait.PollUntilContextCancel
func vhPollUntilCancel(ctx context.Context, _ time.Duration, _ bool, cond func(context.Context) (bool, error)) error {
	var done bool
	var err error
	if err = ctx.Err(); err != nil {
		return err
	}
	zz.WaitUntil(func() bool {
		done, err = cond(ctx)
		return done || err != nil
	})
	return err
}

type vhNoEvents struct{}

func (vhNoEvents) OnAdd(obj interface{}, isInInitialList bool) {}
func (vhNoEvents) OnUpdate(oldObj, newObj interface{})         {}
func (vhNoEvents) OnDelete(obj interface{})                    {}

func VH_C02_factory() {
	vhFactoriesMade = nil
	st := NewFactoryStore()
	gvr := schema.GroupVersionResource{Version: "v1", Resource: "pods"}
	indexes := []FactoryIndex{{GVR: gvr, Namespace: "ns-a"}, {GVR: gvr, Namespace: "ns-b"}}
	_ = metav1.NamespaceAll
	nu := zz.Len("users", 2, zz.Param("maxusers", 3))
	type user struct {
		idx     int
		ctx     context.Context
		cancel  context.CancelFunc
		running bool
		inf     cache.SharedIndexInformer
	}
	users := make([]*user, nu)
	for i := range users {
		users[i] = &user{idx: zz.Len("index_of_user"+strconv.Itoa(i), 0, 1)}
	}
	informerOf := func(idx int) cache.SharedIndexInformer {
		f, ok := st.data[indexes[idx]]
		if !ok {
			return nil
		}
		return f.shared.ForResource(gvr).Informer()
	}
	check := func() {
		for idx := range indexes {
			regs := 0
			for _, u := range users {
				if u.running && u.idx == idx {
					regs++
				}
			}
			inf := informerOf(idx)
			if regs > 0 {
				zz.Assert(inf != nil, "factory_kept_while_an_informer_uses_it")
				if inf != nil {
					zz.Assert(!inf.IsStopped(), "shared_informer_runs_while_an_informer_uses_it")
					for _, u := range users {
						if u.running && u.idx == idx {
							zz.Assert(u.inf == inf, "users_of_one_index_share_one_informer")
						}
					}
				}
			} else {
				zz.Assert(inf == nil, "factory_forgotten_after_its_last_user")
			}
		}
	}
	steps := zz.Len("steps", 1, zz.Param("maxsteps", 5))
	for s := 0; s < steps; s++ {
		u := users[zz.Len("user_of_step"+strconv.Itoa(s), 0, nu-1)]
		id := "informer-" + strconv.Itoa(u.idx) + "-" + strconv.Itoa(s)
		if !u.running {
			u.ctx, u.cancel = context.WithCancel(context.Background())
			err := st.Start(u.ctx, id, nil, indexes[u.idx], vhNoEvents{}, &WatchErrorHandler{})
			zz.Assert(err == nil, "informer_starts")
			u.running = true
			u.inf = informerOf(u.idx)
			u.cancel = func(c context.CancelFunc, id string, idx int) context.CancelFunc {
				return func() {
					// resourceInformer.start: <-ctx.Done(); DefaultFactoryStore.Stop(id, index)
					c()
					st.Stop(id, indexes[idx])
				}
			}(u.cancel, id, u.idx)
		} else {
			old := u.inf
			u.cancel()
			u.running = false
			zz.Yield()
			// the informer this user shared is stopped exactly when nobody uses it any more
			others := 0
			for _, o := range users {
				if o.running && o.idx == u.idx {
					others++
				}
			}
			if others == 0 && old != nil {
				zz.WaitUntil(func() bool { return old.IsStopped() })
				zz.Assert(old.IsStopped(), "shared_informer_stopped_after_its_last_user")
			}
		}
		zz.Yield()
		check()
	}
	// leave no thread behind
	for _, u := range users {
		if u.running {
			u.cancel()
		}
	}
	zz.Reach("end")
}
