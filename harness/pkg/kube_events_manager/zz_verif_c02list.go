package kubeeventsmanager

// C02 (e): the Synchronization view starts from the initial list.  The real
// resourceInformer.createSharedInformer / loadExistedObjects / adjustFieldSelector:
// the list request carries the binding's label selector and its field selector
// plus metadata.name=<name> for a name-selected informer, the factory index is
// built from the same strings, and the cache afterwards holds exactly the listed
// objects - each once, under its namespace/kind/name id, with the binding's
// filter applied and the full object kept iff keepFullObjectsInMemory.
//
// The API server is outside (which objects a selector matches): in the engine
// (*klient.Client).Dynamic / GroupVersionResource are stubs over a harness list of
// 0..2 pods that records the list options; natively the flant/kube-client fake
// cluster holds the same pods (all of them carry the selector's label).

import (
	"context"
	"strconv"

	"github.com/deckhouse/deckhouse/pkg/log"
	klient "github.com/flant/kube-client/client"
	"github.com/flant/kube-client/fake"
	metav1 "k8s.io/apimachinery/pkg/apis/meta/v1"
	"k8s.io/apimachinery/pkg/apis/meta/v1/unstructured"
	"k8s.io/apimachinery/pkg/runtime/schema"
	"k8s.io/client-go/dynamic"

	kemtypes "github.com/flant/shell-operator/pkg/kube_events_manager/types"
	"github.com/flant/shell-operator/pkg/metric"
	zz "github.com/flant/shell-operator/pkg/zzverif"
)

var (
	vhListItems []unstructured.Unstructured
	vhListOpts  []metav1.ListOptions
	vhListNs    []string
	vhListGVR   []schema.GroupVersionResource
)

type vhListDyn struct{ dynamic.Interface }
type vhListRes struct {
	dynamic.NamespaceableResourceInterface
	gvr schema.GroupVersionResource
	ns  string
}

func (d vhListDyn) Resource(r schema.GroupVersionResource) dynamic.NamespaceableResourceInterface {
	return &vhListRes{gvr: r}
}
func (r *vhListRes) Namespace(ns string) dynamic.ResourceInterface {
	return &vhListRes{gvr: r.gvr, ns: ns}
}
func (r *vhListRes) List(_ context.Context, opts metav1.ListOptions) (*unstructured.UnstructuredList, error) {
	vhListOpts = append(vhListOpts, opts)
	vhListNs = append(vhListNs, r.ns)
	vhListGVR = append(vhListGVR, r.gvr)
	return &unstructured.UnstructuredList{Items: vhListItems}, nil
}

//verif:enginestub (*github.com/flant/kube-client/client.Client).Dynamic
func vhKlientDynamic(c *klient.Client) dynamic.Interface { return vhListDyn{} }

//verif:enginestub (*github.com/flant/kube-client/client.Client).GroupVersionResource
func vhKlientGVR(c *klient.Client, apiVersion, kind string) (schema.GroupVersionResource, error) {
	return schema.GroupVersionResource{Version: "v1", Resource: "pods"}, nil
}

func VH_C02_initial_list() {
	mc := &MonitorConfig{Kind: "Pod", ApiVersion: "v1", KeepFullObjectsInMemory: zz.Bool("keep_full_objects")}
	mc.Metadata.MonitorId = "mon"
	mc.WithEventTypes(nil)
	filtered := zz.Bool("with_jq_filter")
	if filtered {
		mc.JqFilter = "{a: .kind}"
	}
	withLabels := zz.Bool("label_selector")
	if withLabels {
		mc.LabelSelector = &metav1.LabelSelector{MatchLabels: map[string]string{"app": "x"}}
	}
	withFields := zz.Bool("field_selector")
	if withFields {
		mc.FieldSelector = &kemtypes.FieldSelector{MatchExpressions: []kemtypes.FieldSelectorRequirement{{Field: "status.phase", Operator: "Equals", Value: "Running"}}}
	}
	name := zz.ConcretizeStr(zz.OneOf("informer_name", "", "p0"))

	// the cluster: 0..2 pods in the informer's namespace
	n := zz.Len("pods", 0, 2)
	if name != "" && n > 1 {
		n = 1 // a name-selected list returns at most the named object
	}
	pods := make([]*unstructured.Unstructured, n)
	for i := range pods {
		pods[i] = vhC02Object("ns-a", "p"+strconv.Itoa(i), zz.ConcretizeStr(zz.OneOf("state"+strconv.Itoa(i), "x", "y")))
		pods[i].SetLabels(map[string]string{"app": "x"})
	}
	gvr := schema.GroupVersionResource{Version: "v1", Resource: "pods"}
	var client *klient.Client
	if zz.Symbolic() {
		vhListItems, vhListOpts, vhListNs, vhListGVR = nil, nil, nil, nil
		for _, p := range pods {
			vhListItems = append(vhListItems, *p)
		}
		client = &klient.Client{}
	} else {
		fc := fake.NewFakeCluster(fake.ClusterVersionV121)
		for _, p := range pods {
			_, err := fc.Client.Dynamic().Resource(gvr).Namespace("ns-a").Create(context.TODO(), p, metav1.CreateOptions{})
			zz.Assume(err == nil)
		}
		client = fc.Client
	}
	ei := newResourceInformer("ns-a", name, &resourceInformerConfig{client: client, mstor: &metric.VFakeStorage{}, monitor: mc, logger: log.NewNop()})
	err := ei.createSharedInformer()
	zz.Assert(err == nil, "initial_list_succeeds")
	if err != nil {
		return
	}
	// the request
	wantLabels := ""
	if withLabels {
		wantLabels = "app=x"
	}
	wantFields := ""
	if withFields {
		wantFields = "status.phase=Running"
	}
	if name != "" {
		if wantFields != "" {
			wantFields += ","
		}
		wantFields += "metadata.name=" + name
	}
	zz.Assert(ei.ListOptions.LabelSelector == wantLabels, "list_carries_the_label_selector")
	zz.Assert(ei.ListOptions.FieldSelector == wantFields, "list_carries_field_selector_and_name")
	zz.Assert(ei.FactoryIndex.GVR == gvr && ei.FactoryIndex.Namespace == "ns-a" && ei.FactoryIndex.LabelSelector == wantLabels && ei.FactoryIndex.FieldSelector == wantFields, "factory_index_matches_the_list_request")
	if zz.Symbolic() {
		zz.Assert(len(vhListOpts) == 1 && vhListNs[0] == "ns-a" && vhListGVR[0] == gvr, "one_list_request_for_the_informers_namespace_and_resource")
		if len(vhListOpts) == 1 {
			zz.Assert(vhListOpts[0].LabelSelector == wantLabels && vhListOpts[0].FieldSelector == wantFields, "the_request_sent_is_the_one_recorded")
		}
	}
	// the binding's own selector is not modified by the name adjustment
	if withFields {
		zz.Assert(len(mc.FieldSelector.MatchExpressions) == 1, "binding_field_selector_left_untouched")
	}
	// the cache
	zz.Assert(len(ei.cachedObjects) == n, "cache_holds_exactly_the_listed_objects")
	zz.Assert(ei.cachedObjectsInfo.Count == uint64(n), "cache_count_is_reported")
	for i := range pods {
		o := ei.cachedObjects["ns-a/Pod/p"+strconv.Itoa(i)]
		zz.Assert(o != nil, "listed_object_is_cached_under_its_id")
		if o == nil {
			continue
		}
		zz.Assert((o.Object != nil) == mc.KeepFullObjectsInMemory, "full_object_kept_iff_configured")
		if filtered {
			fr, _ := o.FilterResult.(map[string]any)
			zz.Assert(fr != nil && fr["a"] == "Pod", "binding_filter_applied_to_listed_objects")
		} else {
			zz.Assert(o.FilterResult == nil, "no_filter_no_filter_result")
		}
		zz.Assert(o.Metadata.Checksum != "", "listed_object_has_a_checksum")
	}
	snap := ei.getCachedObjects()
	zz.Assert(len(snap) == n, "snapshot_after_the_list_has_the_listed_objects")
	zz.Reach("end")
}
