package kubeeventsmanager

// C02 (c): a monitor with namespace.labelSelector follows the set of matching
// namespaces: its snapshot holds the objects of exactly the namespaces that
// match now (those listed at start, plus added, minus removed ones).
//
// The client-go informers are outside the encodable fragment; they are replaced
// by guarded stubs that keep the callbacks and read a fake cluster held by the
// harness.  CreateInformers, Start, the add/delete namespace callbacks,
// Snapshot and the sync.Map wrappers are the real code.

import (
	"context"
	"strconv"

	"github.com/deckhouse/deckhouse/pkg/log"
	v1 "k8s.io/api/core/v1"
	metav1 "k8s.io/apimachinery/pkg/apis/meta/v1"

	kemtypes "github.com/flant/shell-operator/pkg/kube_events_manager/types"
	"github.com/flant/shell-operator/pkg/metric"
	zz "github.com/flant/shell-operator/pkg/zzverif"
)

var (
	vhNsOn       bool
	vhNsExisting map[string]bool // namespaces matching the selector in the fake cluster
	vhNsInformer *namespaceInformer
	vhNsStarted  []*resourceInformer
	vhNsObjState map[string]string // namespace -> state of its pod "p" ("" = no pod)
)

func vhNsActive() bool { return vhNsOn }

//verif:stub (*$R/pkg/kube_events_manager.namespaceInformer).createSharedInformer if vhNsActive
func vhNsCreateStub(ni *namespaceInformer, addFn func(string), delFn func(string)) error {
	ni.addFn = addFn
	ni.delFn = delFn
	for ns, ok := range vhNsExisting {
		if ok {
			ni.ExistedObjects[ns] = true
		}
	}
	vhNsInformer = ni
	return nil
}

//verif:stub (*$R/pkg/kube_events_manager.namespaceInformer).start if vhNsActive
func vhNsStartStub(ni *namespaceInformer) {}

// the initial list of a resource informer: the fake cluster's objects of its namespace
//
//verif:stub (*$R/pkg/kube_events_manager.resourceInformer).createSharedInformer if vhNsActive
func vhNsRICreateStub(ei *resourceInformer) error {
	if st := vhNsObjState[ei.Namespace]; st != "" {
		r, err := applyFilter("", nil, nil, vhC02Object(ei.Namespace, "p", st))
		if err != nil {
			return err
		}
		ei.cachedObjects[ei.Namespace+"/Pod/p"] = r
	}
	return nil
}

//verif:stub (*$R/pkg/kube_events_manager.resourceInformer).start if vhNsActive
func vhNsRIStartStub(ei *resourceInformer) {
	vhNsStarted = append(vhNsStarted, ei)
}

func VH_C02_namespaces() {
	vhNsOn = true
	names := []string{"ns-a", "ns-b"}
	vhNsExisting = map[string]bool{}
	vhNsObjState = map[string]string{}
	vhNsStarted = nil
	matching := map[string]bool{}
	for _, ns := range names {
		vhNsExisting[ns] = zz.Bool("exists_at_start_" + ns)
		matching[ns] = vhNsExisting[ns]
		vhNsObjState[ns] = zz.ConcretizeStr(zz.OneOf("pod_in_"+ns, "", "x"))
	}
	mc := &MonitorConfig{Kind: "Pod", ApiVersion: "v1"}
	mc.Metadata.MonitorId = "mon"
	mc.WithEventTypes(nil)
	mc.NamespaceSelector = &kemtypes.NamespaceSelector{LabelSelector: &metav1.LabelSelector{MatchLabels: map[string]string{"watch": "yes"}}}
	delivered := 0
	mon := NewMonitor(context.Background(), nil, &metric.VFakeStorage{}, mc, func(ev kemtypes.KubeEvent) { delivered++ }, log.NewNop())
	zz.Assert(mon.CreateInformers() == nil, "informers_created")
	zz.Assert(vhNsInformer != nil, "namespace_informer_created")
	enabledEarly := zz.Bool("events_enabled_before_namespace_changes")
	mon.Start(context.Background())
	if enabledEarly {
		mon.EnableKubeEventCb()
	}

	check := func(tag string) {
		snap := mon.Snapshot()
		want := 0
		for _, ns := range names {
			has := false
			cnt := 0
			for _, o := range snap {
				if o.Metadata.ResourceId == ns+"/Pod/p" {
					has = true
					cnt++
				}
			}
			expect := matching[ns] && vhNsObjState[ns] != ""
			if expect {
				want++
			}
			zz.Assert(!expect || has, "objects_of_matching_namespace_in_snapshot")
			zz.Assert(expect || !has, "objects_of_removed_namespace_not_in_snapshot")
			zz.Assert(cnt <= 1, "object_listed_once")
		}
		zz.Assert(len(snap) == want, "snapshot_is_exactly_the_matching_namespaces")
	}
	check("after_start")

	// the shared namespace informer replays the listed namespaces as Added, then
	// reports namespaces that start or stop matching
	if zz.Bool("replay_of_listed_namespaces") {
		for _, ns := range names {
			if vhNsExisting[ns] {
				vhNsInformer.OnAdd(&v1.Namespace{ObjectMeta: metav1.ObjectMeta{Name: ns}}, true)
			}
		}
		check("after_replay")
	}
	n := zz.Len("ns_events", 0, zz.Param("maxevents", 3))
	for e := 0; e < n; e++ {
		se := strconv.Itoa(e)
		ns := names[zz.Len("ns"+se, 0, len(names)-1)]
		nsObj := &v1.Namespace{ObjectMeta: metav1.ObjectMeta{Name: ns}}
		if matching[ns] {
			// it stops matching (label removed or namespace deleted)
			vhNsInformer.OnDelete(nsObj)
			matching[ns] = false
		} else {
			// the pods of a namespace may change while it is not watched
			vhNsObjState[ns] = zz.ConcretizeStr(zz.OneOf("pod_then_"+se, "", "x", "y"))
			vhNsInformer.OnAdd(nsObj, false)
			matching[ns] = true
		}
		check("after_event")
	}
	// informers of namespaces that do not match any more are stopped, the others run
	for _, ei := range vhNsStarted {
		cur, _ := mon.VaryingInformers.Load(ei.Namespace)
		isCurrent := false
		for _, c := range cur {
			if c == ei {
				isCurrent = true
			}
		}
		stopped := ei.ctx != nil && ei.ctx.Err() != nil
		zz.Assert(isCurrent || stopped, "informer_of_removed_namespace_is_stopped")
		zz.Assert(!isCurrent || !stopped, "informer_of_matching_namespace_keeps_running")
	}
	for _, ns := range names {
		cur, ok := mon.VaryingInformers.Load(ns)
		zz.Assert(ok == matching[ns], "informers_registered_iff_namespace_matches")
		for _, c := range cur {
			started := false
			for _, ei := range vhNsStarted {
				if ei == c {
					started = true
				}
			}
			zz.Assert(started, "informer_of_matching_namespace_was_started")
			zz.Assert(c.eventCbEnabled == enabledEarly, "new_informers_follow_the_event_switch")
		}
	}
	vhNsOn = false
	zz.Reach("end")
}
