package kubeeventsmanager

// C08: hooks are triggered only by meaningful changes.

import (
	"k8s.io/apimachinery/pkg/apis/meta/v1/unstructured"
	"k8s.io/client-go/tools/cache"

	"github.com/deckhouse/deckhouse/pkg/log"

	"github.com/flant/shell-operator/pkg/filter/jq"
	kemtypes "github.com/flant/shell-operator/pkg/kube_events_manager/types"
	"github.com/flant/shell-operator/pkg/metric"
	zz "github.com/flant/shell-operator/pkg/zzverif"
)

// jq expression shapes and the kind of value found at .v
const (
	vhNoFilter    = 0 // whole object
	vhObjField    = 1 // .v, v = {"k": s}
	vhConstructed = 2 // {a: .v}, v = s
	vhScalarField = 3 // .v, v = s
	vhArrayField  = 4 // .v, v = [s]
	vhNumberField = 5 // .v, v = 1 or 2
	vhShapes      = 6
)

func vhFilterExpr(shape int) string {
	switch shape {
	case vhNoFilter:
		return ""
	case vhConstructed:
		return "{a: .v}"
	}
	return ".v"
}

// vhObject builds the object in state (sv, sw): sv is what the projection
// looks at, sw lies outside every projection except the whole object.
func vhObject(shape int, sv, sw string) *unstructured.Unstructured {
	var v any
	switch shape {
	case vhObjField:
		v = map[string]any{"k": sv}
	case vhArrayField:
		v = []any{sv}
	case vhNumberField:
		if sv == "x" {
			v = float64(1)
		} else {
			v = float64(2)
		}
	default:
		v = sv
	}
	return &unstructured.Unstructured{Object: map[string]any{
		"apiVersion": "v1", "kind": "Pod",
		"metadata": map[string]any{"name": "p", "namespace": "ns"},
		"v":        v, "w": sw,
	}}
}

func vhState(tag string) (string, string) {
	return zz.OneOf(tag+"_v", "x", "y"), zz.OneOf(tag+"_w", "x", "y")
}

// VH_C08_projection: two states of one object have the same checksum exactly
// when their projection is the same.
func VH_C08_projection() {
	shape := zz.Len("shape", 0, vhShapes-1)
	v0, w0 := vhState("s0")
	v1, w1 := vhState("s1")
	r0, err0 := applyFilter(vhFilterExpr(shape), jq.NewFilter(), nil, vhObject(shape, v0, w0))
	r1, err1 := applyFilter(vhFilterExpr(shape), jq.NewFilter(), nil, vhObject(shape, v1, w1))
	zz.Assert(err0 == nil && err1 == nil, "filter_applies")
	if err0 != nil || err1 != nil {
		return
	}
	same := v0 == v1
	if shape == vhNoFilter {
		same = zz.And(v0 == v1, w0 == w1)
	}
	zz.Class("non_object_projection", shape == vhScalarField || shape == vhArrayField || shape == vhNumberField)
	zz.Assert(zz.Implies(same, r0.Metadata.Checksum == r1.Metadata.Checksum), "same_projection_same_checksum")
	zz.Assert(zz.Implies(zz.Not(same), r0.Metadata.Checksum != r1.Metadata.Checksum), "different_projection_different_checksum")
	zz.Assert(r0.Metadata.JqFilter == vhFilterExpr(shape), "result_records_filter")
	zz.Assert(r0.Metadata.ResourceId == "ns/Pod/p", "resource_id_is_namespace_kind_name")
	// an evaluation error is an error
	_, errE := applyFilter("error(\"boom\")", jq.NewFilter(), nil, vhObject(vhScalarField, v0, w0))
	zz.Assert(errE != nil, "evaluation_error_is_reported")
	zz.Reach("end")
}

type vhEventRec struct{ events []kemtypes.KubeEvent }

func vhInformer(shape int, types []kemtypes.WatchEventType, keepFull bool, rec *vhEventRec) *resourceInformer {
	mc := &MonitorConfig{JqFilter: vhFilterExpr(shape), KeepFullObjectsInMemory: keepFull}
	mc.Metadata.MonitorId = "mon"
	mc.EventTypes = types
	ei := newResourceInformer("ns", "", &resourceInformerConfig{
		mstor:   &metric.VFakeStorage{},
		eventCb: func(ev kemtypes.KubeEvent) { rec.events = append(rec.events, ev) },
		monitor: mc,
		logger:  log.NewNop(),
	})
	ei.eventCbEnabled = true
	return ei
}

// VH_C08_watch_event: one watch event from an arbitrary cache state.
func VH_C08_watch_event() {
	shape := zz.Len("shape", 0, vhShapes-1)
	var types []kemtypes.WatchEventType
	wantAdded, wantModified, wantDeleted := zz.Bool("on_added"), zz.Bool("on_modified"), zz.Bool("on_deleted")
	if wantAdded {
		types = append(types, kemtypes.WatchEventAdded)
	}
	if wantModified {
		types = append(types, kemtypes.WatchEventModified)
	}
	if wantDeleted {
		types = append(types, kemtypes.WatchEventDeleted)
	}
	rec := &vhEventRec{}
	keepFull := zz.Bool("keep_full_objects")
	ei := vhInformer(shape, types, keepFull, rec)

	// pre-state: the object is unknown, or known in state s0
	known := zz.Bool("known")
	v0, w0 := vhState("s0")
	if known {
		pre, err := applyFilter(vhFilterExpr(shape), jq.NewFilter(), nil, vhObject(shape, v0, w0))
		zz.Assume(err == nil)
		ei.cachedObjects["ns/Pod/p"] = pre
	}
	v1, w1 := vhState("s1")
	et := kemtypes.WatchEventType(zz.OneOf("event", string(kemtypes.WatchEventAdded), string(kemtypes.WatchEventModified), string(kemtypes.WatchEventDeleted)))
	// the change enters through the callbacks client-go calls (cache.ResourceEventHandler)
	if zz.Bool("delete_arrives_as_tombstone") {
		// a deletion noticed only by a re-list is delivered wrapped in a tombstone
		zz.Assume(et == kemtypes.WatchEventDeleted)
		ei.OnDelete(cache.DeletedFinalStateUnknown{Key: "ns/p", Obj: vhObject(shape, v1, w1)})
	} else {
		switch zz.ConcretizeStr(string(et)) {
		case string(kemtypes.WatchEventAdded):
			// Added notifications of the informer's own initial list carry isInInitialList:
			// the object may have changed since loadExistedObjects listed it
			ei.OnAdd(vhObject(shape, v1, w1), zz.Bool("added_is_in_initial_list"))
		case string(kemtypes.WatchEventModified):
			ei.OnUpdate(nil, vhObject(shape, v1, w1))
		default:
			ei.OnDelete(vhObject(shape, v1, w1))
		}
	}

	same := v0 == v1
	if shape == vhNoFilter {
		same = zz.And(v0 == v1, w0 == w1)
	}
	listed := zz.Or(zz.And(et == kemtypes.WatchEventAdded, wantAdded), zz.Or(zz.And(et == kemtypes.WatchEventModified, wantModified), zz.And(et == kemtypes.WatchEventDeleted, wantDeleted)))
	changed := zz.Or(et == kemtypes.WatchEventDeleted, zz.Or(!known, zz.Not(same)))
	expect := zz.And(listed, changed)
	zz.Class("non_object_projection", shape == vhScalarField || shape == vhArrayField || shape == vhNumberField)
	zz.Assert(zz.Implies(expect, len(rec.events) == 1), "meaningful_change_triggers")
	zz.Assert(zz.Implies(zz.Not(expect), len(rec.events) == 0), "unlisted_or_unchanged_triggers_nothing")
	if len(rec.events) == 1 {
		ev := rec.events[0]
		zz.Assert(ev.Type == kemtypes.TypeEvent && ev.MonitorId == "mon", "event_names_monitor")
		zz.Assert(len(ev.WatchEvents) == 1 && ev.WatchEvents[0] == et, "event_carries_watch_type")
		zz.Assert(len(ev.Objects) == 1 && ev.Objects[0].Metadata.ResourceId == "ns/Pod/p", "event_carries_object")
		if len(ev.Objects) == 1 {
			zz.Assert((ev.Objects[0].Object != nil) == keepFull, "full_object_kept_iff_configured")
		}
	}
	// suppressed or not, the cache shows the new state
	cur, has := ei.cachedObjects["ns/Pod/p"]
	if et == kemtypes.WatchEventDeleted {
		zz.Assert(!has, "deleted_object_leaves_snapshot")
	} else {
		zz.Assert(has, "object_in_snapshot")
		if has {
			now, err := applyFilter(vhFilterExpr(shape), jq.NewFilter(), nil, vhObject(shape, v1, w1))
			zz.Assume(err == nil)
			zz.Assert(cur.Metadata.Checksum == now.Metadata.Checksum, "snapshot_shows_latest_state")
			zz.Assert((cur.Object != nil) == keepFull, "full_object_kept_iff_configured")
		}
	}
	zz.Assert(len(ei.cachedObjects) <= 1, "one_cache_entry_per_object")
	zz.Reach("end")
}

// vhConfusables: JSON values that differ as JSON but look alike under a loose
// text form (quotes dropped, elements separated by spaces, "" vs nothing).
func vhConfusable(i int) any {
	switch i {
	case 0:
		return "1"
	case 1:
		return float64(1)
	case 2:
		return "true"
	case 3:
		return true
	case 4:
		return []any{"a b"}
	case 5:
		return []any{"a", "b"}
	case 6:
		return []any{""}
	case 7:
		return []any{}
	case 8:
		return map[string]any{"k": "x l:y"}
	}
	return map[string]any{"k": "x", "l": "y"}
}

// VH_C08_confusable: the checksum of a projection separates any two different
// JSON values, also those whose loose text forms coincide.
func VH_C08_confusable() {
	i0 := zz.Len("value0", 0, 9)
	i1 := zz.Len("value1", 0, 9)
	mk := func(i int) *unstructured.Unstructured {
		return &unstructured.Unstructured{Object: map[string]any{
			"apiVersion": "v1", "kind": "Pod",
			"metadata": map[string]any{"name": "p", "namespace": "ns"},
			"v":        vhConfusable(i),
		}}
	}
	r0, err0 := applyFilter("{a: .v}", jq.NewFilter(), nil, mk(i0))
	r1, err1 := applyFilter("{a: .v}", jq.NewFilter(), nil, mk(i1))
	zz.Assert(err0 == nil && err1 == nil, "filter_applies")
	if err0 != nil || err1 != nil {
		return
	}
	zz.Assert((i0 == i1) == (r0.Metadata.Checksum == r1.Metadata.Checksum), "checksum_separates_different_projections")
	zz.Reach("end")
}
