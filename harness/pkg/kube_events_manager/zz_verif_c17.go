package kubeeventsmanager

// C17 (cluster events part): after PauseHandleEvents no informer callback
// leads to an event, for static and dynamic informers of every monitor.

import (
	"context"
	"strconv"

	"github.com/deckhouse/deckhouse/pkg/log"

	kemtypes "github.com/flant/shell-operator/pkg/kube_events_manager/types"
	"github.com/flant/shell-operator/pkg/metric"
	zz "github.com/flant/shell-operator/pkg/zzverif"
)

func VH_C17_pause_events() {
	mgr := NewKubeEventsManager(context.Background(), nil, log.NewNop())
	mgr.WithMetricStorage(&metric.VFakeStorage{})
	events := 0
	nmon := zz.Len("monitors", 1, 2)
	var infs []*resourceInformer
	for i := 0; i < nmon; i++ {
		mc := &MonitorConfig{Kind: "Pod", ApiVersion: "v1", KeepFullObjectsInMemory: true}
		mc.Metadata.MonitorId = "mon" + strconv.Itoa(i)
		mc.WithEventTypes(nil)
		mon := NewMonitor(context.Background(), nil, &metric.VFakeStorage{}, mc, func(ev kemtypes.KubeEvent) { events++ }, log.NewNop())
		// a monitor may still be in its Synchronization phase (events locked) when the
		// shutdown is requested; the running handler unlocks it afterwards
		locked := zz.Bool("still_synchronizing" + strconv.Itoa(i))
		mk := func(ns string) *resourceInformer {
			ei := newResourceInformer(ns, "", &resourceInformerConfig{mstor: &metric.VFakeStorage{}, eventCb: mon.eventCb, monitor: mc, logger: log.NewNop()})
			ei.eventCbEnabled = !locked
			return ei
		}
		st := mk("ns-a")
		mon.ResourceInformers = append(mon.ResourceInformers, st)
		infs = append(infs, st)
		if zz.Bool("dynamic_namespace" + strconv.Itoa(i)) {
			dyn := mk("ns-b")
			mon.VaryingInformers.Store("ns-b", []*resourceInformer{dyn})
			infs = append(infs, dyn)
		}
		mgr.Monitors[mc.Metadata.MonitorId] = mon
	}
	// before the pause events flow
	if infs[0].eventCbEnabled {
		infs[0].OnAdd(vhC02Object("ns-a", "p", "x"), false)
		zz.Assert(events == 1, "events_flow_before_shutdown")
	}
	mgr.PauseHandleEvents()
	before := events
	for i, ei := range infs {
		kind := zz.Len("kind"+strconv.Itoa(i), 0, 2)
		o := vhC02Object(ei.Namespace, "q", "y")
		switch kind {
		case 0:
			ei.OnAdd(o, false)
		case 1:
			ei.OnUpdate(nil, o)
		case 2:
			ei.OnDelete(o)
		}
		zz.Assert(len(ei.eventBuf) == 0, "no_event_buffered_after_shutdown_request")
	}
	zz.Assert(events == before, "no_cluster_event_after_shutdown_request")
	// the Synchronization handler that was running returns and unlocks its monitors
	for _, mon := range mgr.Monitors {
		mon.EnableKubeEventCb()
	}
	zz.Assert(events == before, "no_cluster_event_released_by_a_later_unlock")
	zz.Reach("end")
}
