package kubeeventsmanager

// Overlay-only fakes of KubeEventsManager / Monitor for harnesses of packages
// above this one (constructors and recorders only, no logic under test).

import (
	"context"
	"sort"

	"github.com/deckhouse/deckhouse/pkg/log"

	"k8s.io/apimachinery/pkg/apis/meta/v1/unstructured"

	"github.com/flant/shell-operator/pkg/filter/jq"

	kemtypes "github.com/flant/shell-operator/pkg/kube_events_manager/types"
	"github.com/flant/shell-operator/pkg/metric"
)

type VFakeMonitor struct {
	Cfg        *MonitorConfig
	Snap       []kemtypes.ObjectAndFilterResult
	EnableCbN  int
	Started    bool
	SnapshotsN int
	SnapFn     func(call int) []kemtypes.ObjectAndFilterResult
}

func (m *VFakeMonitor) CreateInformers() error { return nil }
func (m *VFakeMonitor) Start(context.Context)  { m.Started = true }
func (m *VFakeMonitor) Stop()                  {}
func (m *VFakeMonitor) PauseHandleEvents()     {}
func (m *VFakeMonitor) Snapshot() []kemtypes.ObjectAndFilterResult {
	m.SnapshotsN++
	if m.SnapFn != nil {
		return m.SnapFn(m.SnapshotsN)
	}
	return m.Snap
}
func (m *VFakeMonitor) EnableKubeEventCb()        { m.EnableCbN++ }
func (m *VFakeMonitor) GetConfig() *MonitorConfig { return m.Cfg }
func (m *VFakeMonitor) SnapshotOperations() (*CachedObjectsInfo, *CachedObjectsInfo) {
	return &CachedObjectsInfo{}, &CachedObjectsInfo{}
}

type VFakeManager struct {
	Monitors map[string]*VFakeMonitor
	Log      []string // "add:<id>", "start:<id>", "stop:<id>"
	AddErr   func(id string) error
	EventCh  chan kemtypes.KubeEvent
	Paused   bool
}

func VNewFakeManager() *VFakeManager {
	return &VFakeManager{Monitors: map[string]*VFakeMonitor{}, EventCh: make(chan kemtypes.KubeEvent, 1)}
}

func (f *VFakeManager) WithMetricStorage(metric.Storage) {}
func (f *VFakeManager) AddMonitor(c *MonitorConfig) error {
	f.Log = append(f.Log, "add:"+c.Metadata.MonitorId)
	if f.AddErr != nil {
		if err := f.AddErr(c.Metadata.MonitorId); err != nil {
			return err
		}
	}
	if _, ok := f.Monitors[c.Metadata.MonitorId]; !ok {
		f.Monitors[c.Metadata.MonitorId] = &VFakeMonitor{Cfg: c}
	}
	return nil
}
func (f *VFakeManager) HasMonitor(id string) bool { _, ok := f.Monitors[id]; return ok }
func (f *VFakeManager) GetMonitor(id string) Monitor {
	if m, ok := f.Monitors[id]; ok {
		return m
	}
	return nil
}
func (f *VFakeManager) StartMonitor(id string) {
	f.Log = append(f.Log, "start:"+id)
	if m, ok := f.Monitors[id]; ok {
		m.Started = true
	}
}
func (f *VFakeManager) StopMonitor(id string) error {
	f.Log = append(f.Log, "stop:"+id)
	return nil
}
func (f *VFakeManager) Ch() chan kemtypes.KubeEvent { return f.EventCh }
func (f *VFakeManager) PauseHandleEvents()          { f.Paused = true }

// VApplyFilter exposes applyFilter with the real jq filter (exporter only).
func VApplyFilter(jqFilter string, obj *unstructured.Unstructured) (*kemtypes.ObjectAndFilterResult, error) {
	return applyFilter(jqFilter, jq.NewFilter(), nil, obj)
}

// VInformer drives the real resourceInformer (handleWatchEvent, the cache and
// getCachedObjects) for harnesses of the packages above: an exporter only.
type VInformer struct {
	ei     *resourceInformer
	Events []kemtypes.KubeEvent
	// InitialList: Added notifications are marked as part of the informer's initial list
	InitialList bool
}

func VNewInformer(mc *MonitorConfig) *VInformer {
	v := &VInformer{}
	v.ei = newResourceInformer("ns", "", &resourceInformerConfig{
		mstor:   &metric.VFakeStorage{},
		eventCb: func(ev kemtypes.KubeEvent) { v.Events = append(v.Events, ev) },
		monitor: mc,
		logger:  log.NewNop(),
	})
	v.ei.eventCbEnabled = true
	return v
}

func (v *VInformer) Watch(obj *unstructured.Unstructured, wt kemtypes.WatchEventType) {
	switch wt {
	case kemtypes.WatchEventAdded:
		v.ei.OnAdd(obj, v.InitialList)
	case kemtypes.WatchEventModified:
		v.ei.OnUpdate(nil, obj)
	default:
		v.ei.OnDelete(obj)
	}
}

// Snapshot is what monitor.Snapshot returns for a monitor with this one informer.
func (v *VInformer) Snapshot() []kemtypes.ObjectAndFilterResult {
	objects := v.ei.getCachedObjects()
	sort.Sort(kemtypes.ByNamespaceAndName(objects))
	return objects
}
