package metric

// VSeries is one stored series of a grouped collector (exporter for harnesses).
type VSeries struct {
	Kind        string
	Name        string
	Group       string
	LabelNames  []string
	LabelValues []string
	Value       float64
}

// VDump lists the series of a collector in no particular order.
func VDump(c ConstCollector) []VSeries {
	var out []VSeries
	switch c := c.(type) {
	case *ConstCounterCollector:
		for _, s := range c.collection {
			out = append(out, VSeries{"counter", c.name, s.Group, c.labelNames, s.LabelValues, float64(s.Value)})
		}
	case *ConstGaugeCollector:
		for _, s := range c.collection {
			out = append(out, VSeries{"gauge", c.name, s.Group, c.labelNames, s.LabelValues, s.Value})
		}
	}
	return out
}
