package metric

// Overlay-only do-nothing metric.Storage with a hook for SendBatch.

import (
	"net/http"

	"github.com/prometheus/client_golang/prometheus"

	"github.com/flant/shell-operator/pkg/metric_storage/operation"
)

type VFakeStorage struct {
	SendBatchFn func(ops []operation.MetricOperation, labels map[string]string) error
	Batches     int
}

func (s *VFakeStorage) ApplyOperation(op operation.MetricOperation, commonLabels map[string]string) {}
func (s *VFakeStorage) Counter(metric string, labels map[string]string) *prometheus.CounterVec {
	return nil
}
func (s *VFakeStorage) CounterAdd(metric string, value float64, labels map[string]string) {}
func (s *VFakeStorage) Gauge(metric string, labels map[string]string) *prometheus.GaugeVec {
	return nil
}
func (s *VFakeStorage) GaugeAdd(metric string, value float64, labels map[string]string) {}
func (s *VFakeStorage) GaugeSet(metric string, value float64, labels map[string]string) {}
func (s *VFakeStorage) Grouped() GroupedStorage                                         { return nil }
func (s *VFakeStorage) Handler() http.Handler                                           { return nil }
func (s *VFakeStorage) Histogram(metric string, labels map[string]string, buckets []float64) *prometheus.HistogramVec {
	return nil
}
func (s *VFakeStorage) HistogramObserve(metric string, value float64, labels map[string]string, buckets []float64) {
}
func (s *VFakeStorage) RegisterCounter(metric string, labels map[string]string) *prometheus.CounterVec {
	return nil
}
func (s *VFakeStorage) RegisterGauge(metric string, labels map[string]string) *prometheus.GaugeVec {
	return nil
}
func (s *VFakeStorage) RegisterHistogram(metric string, labels map[string]string, buckets []float64) *prometheus.HistogramVec {
	return nil
}
func (s *VFakeStorage) SendBatch(ops []operation.MetricOperation, labels map[string]string) error {
	s.Batches++
	if s.SendBatchFn != nil {
		return s.SendBatchFn(ops, labels)
	}
	return nil
}
