package operation

// C12 / C04 / C16: "after a zero exit the output files are parsed ... a malformed
// output fails the execution".  The metrics file is a stream of JSON documents;
// MetricOperationsFromBytes must return every document as one operation (with
// the documented set/add shortcuts applied) or an error - never a silently
// shortened list - for every stream of up to N documents with an undecodable
// fragment or a stray closing delimiter at any position.
//
// Real code: MetricOperationsFromBytes / MetricOperationsFromReader (the decode
// loop and the shortcut transforms).  encoding/json is the engine's document
// stream model (zz.JSONDocsWithStray): Decode sets the members a document
// mentions, returns io.EOF at the end and a syntax error at a damaged place;
// More() is false at the end and in front of a closing delimiter.  Natively the
// real bytes are decoded by the real encoding/json.

import (
	"strconv"

	zz "github.com/flant/shell-operator/pkg/zzverif"
)

func VH_C12_metrics_stream() {
	n := zz.Len("documents", 0, zz.Param("maxdocs", 3))
	shapes := make([]int, n)
	var docs []map[string]any
	for i := 0; i < n; i++ {
		shapes[i] = zz.Len("shape"+strconv.Itoa(i), 0, 5)
		switch shapes[i] {
		case 0:
			docs = append(docs, map[string]any{"name": "m" + strconv.Itoa(i), "action": "set", "value": 1.0})
		case 1:
			docs = append(docs, map[string]any{"name": "m" + strconv.Itoa(i), "set": 2.0})
		case 2:
			docs = append(docs, map[string]any{"name": "m" + strconv.Itoa(i), "add": 3.0, "labels": map[string]any{"a": "b"}})
		case 3:
			docs = append(docs, map[string]any{"name": "m" + strconv.Itoa(i), "set": 1.0, "add": 2.0})
		case 4:
			docs = append(docs, map[string]any{"group": "g", "action": "expire"})
		case 5:
			docs = append(docs, map[string]any{"name": "m" + strconv.Itoa(i), "action": "add", "value": 4.0, "group": "g"})
		}
	}
	damage := zz.Len("damage", 0, 2) // 0 none, 1 an undecodable fragment, 2 a stray closing delimiter
	malformedAt, strayAt, stray := -1, -1, "}"
	switch damage {
	case 1:
		malformedAt = zz.Len("fragment_in_front_of_document", 0, n)
	case 2:
		strayAt = zz.Len("stray_delimiter_in_front_of_document", 0, n)
		if zz.Bool("stray_is_a_bracket") {
			stray = "]"
		}
	}
	ops, err := MetricOperationsFromBytes(zz.JSONDocsWithStray(malformedAt, strayAt, stray, docs...))
	if damage != 0 {
		zz.Assert(err != nil, "malformed_metrics_output_is_an_error")
		zz.Assert(len(ops) == 0, "malformed_metrics_output_yields_no_operations")
		zz.Reach("end")
		return
	}
	zz.Assert(err == nil, "well_formed_stream_is_parsed")
	zz.Assert(len(ops) == n, "one_operation_per_document")
	if err != nil || len(ops) != n {
		return
	}
	for i, op := range ops {
		name := "m" + strconv.Itoa(i)
		switch shapes[i] {
		case 0:
			zz.Assert(op.Name == name && op.Action == "set" && op.Value != nil && *op.Value == 1.0 && op.Group == "", "operation_carries_the_documents_members")
		case 1:
			zz.Assert(op.Name == name && op.Action == "set" && op.Value != nil && *op.Value == 2.0, "set_shortcut_becomes_action_set")
		case 2:
			zz.Assert(op.Name == name && op.Action == "add" && op.Value != nil && *op.Value == 3.0, "add_shortcut_becomes_action_add")
			zz.Assert(len(op.Labels) == 1 && op.Labels["a"] == "b", "labels_are_carried")
		case 3:
			zz.Assert(op.Action == "" && op.Value == nil, "set_and_add_together_select_no_action")
		case 4:
			zz.Assert(op.Name == "" && op.Group == "g" && op.Action == "expire" && op.Value == nil, "operation_carries_the_documents_members")
		case 5:
			zz.Assert(op.Name == name && op.Group == "g" && op.Action == "add" && op.Value != nil && *op.Value == 4.0, "operation_carries_the_documents_members")
		}
		if shapes[i] != 2 {
			zz.Assert(len(op.Labels) == 0, "members_of_one_document_do_not_leak_into_the_next")
		}
	}
	zz.Reach("end")
}
