package operation

// Guarded stub of the metrics file decoder (encoding/json stream decoding).
var VFromBytesFn func(data []byte) ([]MetricOperation, error)

func vFromBytesActive() bool { return VFromBytesFn != nil }

//verif:stub $R/pkg/metric_storage/operation.MetricOperationsFromBytes if vFromBytesActive
func vFromBytes(data []byte) ([]MetricOperation, error) { return VFromBytesFn(data) }
