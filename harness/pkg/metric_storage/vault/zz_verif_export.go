package vault

import "github.com/flant/shell-operator/pkg/metric"

// VCollectors exposes the collectors of a vault (exporter for harnesses).
func VCollectors(v *GroupedVault) map[string]metric.ConstCollector { return v.collectors }
