package metricstorage

// C16: hook metrics are validated as a batch; grouped metrics are replaced.

import (
	"context"
	"strconv"

	"github.com/deckhouse/deckhouse/pkg/log"

	"github.com/flant/shell-operator/pkg/metric"
	"github.com/flant/shell-operator/pkg/metric_storage/operation"
	"github.com/flant/shell-operator/pkg/metric_storage/vault"
	zz "github.com/flant/shell-operator/pkg/zzverif"
)

// recorder for ungrouped updates (the prometheus vectors are outside)
type vhUngrouped struct {
	kind   string
	name   string
	value  float64
	labels map[string]string
}

var vhRec []vhUngrouped
var vhRecOn bool

func vhRecActive() bool { return vhRecOn }

//verif:stub (*$R/pkg/metric_storage.MetricStorage).CounterAdd if vhRecActive
func vhCounterAdd(m *MetricStorage, metric string, value float64, labels map[string]string) {
	vhRec = append(vhRec, vhUngrouped{"add", metric, value, labels})
}

//verif:stub (*$R/pkg/metric_storage.MetricStorage).GaugeSet if vhRecActive
func vhGaugeSet(m *MetricStorage, metric string, value float64, labels map[string]string) {
	vhRec = append(vhRec, vhUngrouped{"set", metric, value, labels})
}

//verif:stub (*$R/pkg/metric_storage.MetricStorage).HistogramObserve if vhRecActive
func vhHistogramObserve(m *MetricStorage, metric string, value float64, labels map[string]string, buckets []float64) {
	vhRec = append(vhRec, vhUngrouped{"observe", metric, value, labels})
}

type vhOp struct {
	op      operation.MetricOperation
	group   string
	name    string
	action  string
	value   float64
	label   string
	extra   bool // carries a second label "k" (label sets of varying shape)
	invalid bool
}

func vhMakeOp(tag string, allowInvalid bool) vhOp {
	o := vhOp{}
	o.group = zz.ConcretizeStr(zz.OneOf(tag+"_group", "", "g1", "g2"))
	o.name = "m1"
	if zz.Param("single_name", 0) == 0 {
		o.name = zz.ConcretizeStr(zz.OneOf(tag+"_name", "m1", "m2"))
	}
	switch {
	case zz.Param("gauge_only", 0) == 1 && o.group == "":
		o.action = "set"
	case zz.Param("gauge_only", 0) == 1:
		o.action = zz.ConcretizeStr(zz.OneOf(tag+"_action", "set", "expire"))
	case o.group == "":
		o.action = zz.ConcretizeStr(zz.OneOf(tag+"_action", "add", "set", "observe"))
	default:
		o.action = zz.ConcretizeStr(zz.OneOf(tag+"_action", "add", "set", "expire"))
	}
	o.value = zz.Float(tag+"_value", 1, 2, 0.5)
	o.label = zz.OneOf(tag+"_label", "a", "b")
	v := o.value
	o.op = operation.MetricOperation{Name: o.name, Group: o.group, Action: o.action, Value: &v, Labels: map[string]string{"l": o.label}}
	if zz.Param("extra_label", 0) == 1 && zz.Bool(tag+"_extra_label") {
		o.extra = true
		o.op.Labels["k"] = "kv"
	}
	if o.action == "observe" {
		o.op.Buckets = []float64{1, 5}
	}
	if allowInvalid && zz.Bool(tag+"_invalid") {
		o.invalid = true
		o.op.Value = nil // 'value' is required for add/set/observe
		if o.action == "expire" {
			o.op.Action = "bogus"
		}
	}
	return o
}

type vhSeries struct {
	kind  string // counter | gauge
	group string
	name  string
	label string
	extra bool
	value float64
}

// vhApplyModel: reference registry keyed by (group, name, label).
func vhApplyModel(st []vhSeries, batch []vhOp) []vhSeries {
	// groups mentioned in the batch are emptied first
	var out []vhSeries
	for _, s := range st {
		mentioned := false
		for _, o := range batch {
			if o.group != "" && o.group == s.group {
				mentioned = true
			}
		}
		if !mentioned {
			out = append(out, s)
		}
	}
	// grouped operations are applied per group in batch order
	for _, g := range []string{"g1", "g2"} {
		for _, o := range batch {
			if o.group != g {
				continue
			}
			if o.action == "expire" {
				var kept []vhSeries
				for _, s := range out {
					if s.group != g {
						kept = append(kept, s)
					}
				}
				out = kept
				continue
			}
			kind := "gauge"
			if o.action == "add" {
				kind = "counter"
			}
			found := false
			for i := range out {
				if out[i].group == g && out[i].name == o.name && out[i].kind == kind && out[i].extra == o.extra && zz.Concretize(vhEq(out[i].label, o.label)) == 1 {
					found = true
					if kind == "counter" {
						out[i].value += o.value
					} else {
						out[i].value = o.value
					}
				}
			}
			if !found {
				out = append(out, vhSeries{kind, g, o.name, o.label, o.extra, o.value})
			}
		}
	}
	return out
}

func vhEq(a, b string) int {
	if a == b {
		return 1
	}
	return 0
}

func vhDumpAll(m *MetricStorage) []metric.VSeries {
	var all []metric.VSeries
	for _, c := range vault.VCollectors(m.groupedVault) {
		all = append(all, metric.VDump(c)...)
	}
	return all
}

func VH_C16_batches() {
	m := NewMetricStorage(context.Background(), "p_", true, log.NewNop())
	vhRec, vhRecOn = nil, true
	common := map[string]string{"hook": "hookA"}

	var model []vhSeries
	nb := zz.Param("batches", 2)
	fractional := false
	var history []vhOp
	// a metric name has one type (counter or gauge) for its whole life, as in Prometheus
	kindOf := map[string]string{}
	for b := 0; b < nb; b++ {
		maxops := zz.Param("maxops", 2)
		if b < nb-1 {
			maxops = zz.Param("maxops_first", 1)
		}
		n := zz.Len("nops"+strconv.Itoa(b), 1, maxops)
		batch := make([]vhOp, n)
		anyInvalid := false
		for i := 0; i < n; i++ {
			batch[i] = vhMakeOp("b"+strconv.Itoa(b)+"o"+strconv.Itoa(i), b == nb-1)
			if batch[i].invalid {
				anyInvalid = true
			}
			if batch[i].group != "" && batch[i].action != "expire" {
				k, seen := kindOf[batch[i].name]
				zz.Assume(!seen || k == batch[i].action)
				kindOf[batch[i].name] = batch[i].action
			}
			if batch[i].action == "add" && batch[i].group != "" && zz.Concretize(vhHalf(batch[i].value)) == 1 {
				fractional = true
			}
		}
		ops := make([]operation.MetricOperation, n)
		for i := range batch {
			ops[i] = batch[i].op
		}
		before := len(vhRec)
		err := m.SendBatch(ops, common)
		if anyInvalid {
			zz.Assert(err != nil, "invalid_operation_fails_the_batch")
			zz.Assert(len(vhRec) == before, "invalid_batch_applies_nothing")
		} else {
			zz.Assert(err == nil, "valid_batch_is_accepted")
			model = vhApplyModel(model, batch)
			for _, o := range batch {
				if o.group != "" && o.action != "expire" {
					history = append(history, o)
				}
			}
			// ungrouped operations reach the named series with the hook label, in order
			k := before
			for _, o := range batch {
				if o.group != "" {
					continue
				}
				zz.Assert(k < len(vhRec), "ungrouped_operation_applied")
				if k < len(vhRec) {
					r := vhRec[k]
					zz.Assert(r.kind == o.action && r.name == o.name && r.value == o.value, "ungrouped_operation_applied")
					nl := 2
					if o.extra {
						nl = 3
					}
					zz.Assert(r.labels["hook"] == "hookA" && r.labels["l"] == o.label && len(r.labels) == nl, "hook_label_added")
				}
				k++
			}
			zz.Assert(k == len(vhRec), "no_extra_ungrouped_updates")
		}
	}
	// classes of listed findings: at any time in the history two grouped series of
	// one metric with equal label values lived in different groups
	collide := false
	for i := range history {
		for j := range history {
			if i != j && history[i].name == history[j].name && history[i].group != history[j].group && history[i].extra == history[j].extra && zz.Concretize(vhEq(history[i].label, history[j].label)) == 1 {
				collide = true
			}
		}
	}
	zz.Class("same_labels_in_two_groups", collide)
	zz.Class("fractional_counter_increment", fractional)
	zz.Class("same_labels_or_fractional", collide || fractional)

	got := vhDumpAll(m)
	zz.Assert(len(got) == len(model), "exactly_the_batch_series_remain")
	for _, w := range model {
		cnt := 0
		for _, g := range got {
			if g.Group != w.group || !(g.Name == "p_"+w.name || g.Name == w.name) || g.Kind != w.kind {
				continue
			}
			// label values by name; a label the series never had is exported as ""
			lv := map[string]string{}
			for i, n := range g.LabelNames {
				if i < len(g.LabelValues) {
					lv[n] = g.LabelValues[i]
				}
			}
			wantK := ""
			if w.extra {
				wantK = "kv"
			}
			if lv["hook"] == "hookA" && lv["l"] == w.label && lv["k"] == wantK {
				cnt++
				zz.Assert(g.Value == w.value, "series_has_the_given_value")
			}
		}
		zz.Assert(cnt == 1, "each_series_present_once")
	}
	zz.Reach("end")
}

func vhHalf(v float64) int {
	if v == 0.5 {
		return 1
	}
	return 0
}


// VH_C16_invalid: one invalid operation, of any documented kind and at any
// position of a batch, makes SendBatch fail with nothing applied: the series of
// an earlier batch (grouped and ungrouped) are all still there, unchanged.
func VH_C16_invalid() {
	m := NewMetricStorage(context.Background(), "p_", true, log.NewNop())
	vhRec, vhRecOn = nil, true
	common := map[string]string{"hook": "hookA"}
	one, two := 1.0, 2.0
	first := []operation.MetricOperation{
		{Name: "m1", Group: "g1", Action: "set", Value: &one, Labels: map[string]string{"l": "a"}},
		{Name: "m2", Action: "add", Value: &one, Labels: map[string]string{"l": "a"}},
	}
	zz.Assert(m.SendBatch(first, common) == nil, "valid_batch_is_applied")
	before := vhDumpAll(m)
	recBefore := len(vhRec)

	n := zz.Len("nops", 1, zz.Param("maxops", 3))
	bad := zz.Len("invalid_position", 0, n-1)
	batch := make([]operation.MetricOperation, n)
	for i := 0; i < n; i++ {
		// valid operations that would change the registry if they were applied
		batch[i] = operation.MetricOperation{Name: "m1", Group: "g1", Action: "set", Value: &two, Labels: map[string]string{"l": "b" + strconv.Itoa(i)}}
		if zz.Bool("ungrouped" + strconv.Itoa(i)) {
			batch[i] = operation.MetricOperation{Name: "m2", Action: "add", Value: &two, Labels: map[string]string{"l": "a"}}
		}
	}
	op := batch[bad]
	switch zz.Len("invalid_kind", 0, 8) {
	case 0:
		op.Value = nil // 'value' is required for set/add/observe
	case 1:
		op.Action = "bogus"
	case 2: // observe is not supported for grouped metrics
		op.Group, op.Action, op.Buckets = "g1", "observe", []float64{1, 5}
	case 3: // expire needs a group
		op.Group, op.Action = "", "expire"
	case 4: // a name is required when the action is not expire
		op.Name = ""
	case 5: // observe needs buckets
		op.Group, op.Action, op.Buckets = "", "observe", nil
	case 6:
		op.Action = ""
	case 7: // set and add exclude each other
		op.Set, op.Add = &one, &one
	case 8: // an ungrouped operation needs a name
		op.Group, op.Name, op.Action = "", "", "set"
	}
	batch[bad] = op
	err := m.SendBatch(batch, common)
	zz.Assert(err != nil, "invalid_operation_fails_the_batch")
	zz.Assert(len(vhRec) == recBefore, "invalid_batch_applies_nothing")
	after := vhDumpAll(m)
	zz.Assert(len(after) == len(before), "invalid_batch_leaves_series_untouched")
	for i := 0; i < len(before) && i < len(after); i++ {
		found := false
		for j := range after {
			if after[j].Name == before[i].Name && after[j].Value == before[i].Value && len(after[j].LabelValues) == len(before[i].LabelValues) {
				same := true
				for k := range after[j].LabelValues {
					if after[j].LabelValues[k] != before[i].LabelValues[k] {
						same = false
					}
				}
				if same {
					found = true
				}
			}
		}
		zz.Assert(found, "invalid_batch_leaves_series_untouched")
	}
	vhRecOn = false
	zz.Reach("end")
}

// VH_C16_label_positions: grouped series of one metric whose label sets have
// different shapes (only `source`, only `target`, both) and whose values may
// coincide across labels: a series is identified by which label carries which
// value, so {source="a"} and {target="a"} are two series.
func VH_C16_label_positions() {
	m := NewMetricStorage(context.Background(), "p_", true, log.NewNop())
	vhRec, vhRecOn = nil, false
	common := map[string]string{"hook": "hookA"}
	counter := zz.Bool("counter")
	n := zz.Len("nops", 2, zz.Param("maxops", 3))
	type key struct{ s, t string }
	var keys []key
	var vals []float64
	var batch []operation.MetricOperation
	for i := 0; i < n; i++ {
		si := strconv.Itoa(i)
		shape := zz.Len("shape"+si, 0, 2)
		k := key{}
		labels := map[string]string{}
		if shape != 1 {
			k.s = zz.ConcretizeStr(zz.OneOf("source"+si, "a", "b"))
			labels["source"] = k.s
		}
		if shape != 0 {
			k.t = zz.ConcretizeStr(zz.OneOf("target"+si, "a", "b"))
			labels["target"] = k.t
		}
		v := float64(i + 1)
		op := operation.MetricOperation{Name: "m1", Group: "g1", Action: "set", Value: &v, Labels: labels}
		if counter {
			op.Action = "add"
		}
		batch = append(batch, op)
		found := false
		for j := range keys {
			if keys[j] == k {
				found = true
				if counter {
					vals[j] += v
				} else {
					vals[j] = v
				}
			}
		}
		if !found {
			keys = append(keys, k)
			vals = append(vals, v)
		}
	}
	zz.Assert(m.SendBatch(batch, common) == nil, "valid_batch_is_applied")
	got := vhDumpAll(m)
	zz.Assert(len(got) == len(keys), "exactly_the_batch_series_remain")
	for j, k := range keys {
		cnt := 0
		for _, g := range got {
			lv := map[string]string{}
			for i, nme := range g.LabelNames {
				if i < len(g.LabelValues) {
					lv[nme] = g.LabelValues[i]
				}
			}
			if lv["source"] == k.s && lv["target"] == k.t && lv["hook"] == "hookA" {
				cnt++
				zz.Assert(g.Value == vals[j], "series_has_the_given_value")
			}
		}
		zz.Assert(cnt == 1, "each_series_present_once")
	}
	zz.Reach("end")
}

// VH_C16_observe: an ungrouped observe between other operations, with its
// buckets absent (invalid: the whole batch is rejected), present but empty
// (valid: default buckets) or given: a batch is applied completely or not at all.
func VH_C16_observe() {
	m := NewMetricStorage(context.Background(), "p_", true, log.NewNop())
	vhRec, vhRecOn = nil, true
	common := map[string]string{"hook": "hookA"}
	one := 1.0
	obs := operation.MetricOperation{Name: "h1", Action: "observe", Value: &one, Labels: map[string]string{"l": "a"}}
	shape := zz.Len("buckets", 0, 2)
	switch shape {
	case 1:
		obs.Buckets = []float64{}
	case 2:
		obs.Buckets = []float64{1, 5}
	}
	batch := []operation.MetricOperation{
		{Name: "m1", Group: "g1", Action: "set", Value: &one, Labels: map[string]string{"l": "a"}},
		{Name: "m2", Action: "add", Value: &one, Labels: map[string]string{"l": "a"}},
	}
	pos := zz.Len("observe_position", 0, 2)
	batch = append(batch[:pos], append([]operation.MetricOperation{obs}, batch[pos:]...)...)
	batch = append(batch, operation.MetricOperation{Name: "m3", Action: "set", Value: &one, Labels: map[string]string{"l": "a"}})
	err := m.SendBatch(batch, common)
	grouped := len(vhDumpAll(m))
	if shape == 0 {
		zz.Assert(err != nil, "invalid_operation_fails_the_batch")
		zz.Assert(len(vhRec) == 0 && grouped == 0, "invalid_batch_applies_nothing")
	} else {
		zz.Assert(err == nil, "valid_batch_is_applied")
		zz.Assert(len(vhRec) == 3 && grouped == 1, "valid_batch_is_applied_completely")
		seen := 0
		for _, r := range vhRec {
			if r.kind == "observe" && r.name == "h1" {
				seen++
			}
		}
		zz.Assert(seen == 1, "observe_is_applied_once")
	}
	vhRecOn = false
	zz.Reach("end")
}
