package schedulemanager

// C11 (a): crontabs are reference counted by the real scheduleManager on top
// of the real cron registry (only cron.Parse is cut: crontabs are valid by
// Add's documented precondition).

import (
	"context"
	"strconv"

	"github.com/deckhouse/deckhouse/pkg/log"

	smtypes "github.com/flant/shell-operator/pkg/schedule_manager/types"
	zz "github.com/flant/shell-operator/pkg/zzverif"
)

var vhCrontabs = []string{"* * * * *", "*/5 * * * *", "0 0 * * *"}
var vhIds = []string{"id-a", "id-b", "id-c"}

func vhPickCrontab(tag string) (string, int) {
	i := zz.Len(tag, 0, len(vhCrontabs)-1)
	return vhCrontabs[i], i
}

func VH_C11_refcount() {
	sm := NewScheduleManager(context.Background(), log.NewNop())
	// model: refs[c][i] = pair (crontab c, id i) is registered
	var refs [3][3]bool
	nops := zz.Len("nops", 1, zz.Param("maxops", 3))
	for k := 0; k < nops; k++ {
		sk := strconv.Itoa(k)
		add := zz.Bool("add" + sk)
		ct, ci := vhPickCrontab("crontab" + sk)
		ii := zz.Len("id"+sk, 0, len(vhIds)-1)
		e := smtypes.ScheduleEntry{Crontab: ct, Id: vhIds[ii]}
		if add {
			sm.Add(e)
			refs[ci][ii] = true
		} else {
			sm.Remove(e)
			refs[ci][ii] = false
		}
		// invariant: the cron registry holds exactly one entry per crontab with >= 1 id
		entries := sm.cron.Entries()
		want := 0
		for c := 0; c < 3; c++ {
			n := 0
			for i := 0; i < 3; i++ {
				if refs[c][i] {
					n++
				}
			}
			ce, has := sm.Entries[vhCrontabs[c]]
			if n > 0 {
				want++
				zz.Assert(has, "crontab_kept_while_referenced")
				zz.Assert(len(ce.Ids) == n, "ids_tracked_exactly")
				found := 0
				for _, en := range entries {
					if en.ID == ce.EntryID {
						found++
					}
				}
				zz.Assert(found == 1, "one_cron_entry_per_crontab")
			} else {
				zz.Assert(!has, "crontab_dropped_with_last_id")
			}
		}
		zz.Assert(len(entries) == want, "no_duplicate_or_stale_firings")
	}
	// fire every registered entry once: each sends its own crontab, exactly once
	fired := [3]int{}
	for _, en := range sm.cron.Entries() {
		en.Job.Run()
		select {
		case ct := <-sm.Ch():
			for c := 0; c < 3; c++ {
				if vhCrontabs[c] == ct {
					fired[c]++
				}
			}
		default:
			zz.Assert(false, "firing_sends_crontab")
		}
	}
	for c := 0; c < 3; c++ {
		n := 0
		for i := 0; i < 3; i++ {
			if refs[c][i] {
				n++
			}
		}
		if n > 0 {
			zz.Assert(fired[c] == 1, "each_registered_crontab_fires_once")
		} else {
			zz.Assert(fired[c] == 0, "unregistered_crontab_never_fires")
		}
	}
	zz.Reach("end")
}
