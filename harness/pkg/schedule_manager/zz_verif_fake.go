package schedulemanager

import (
	smtypes "github.com/flant/shell-operator/pkg/schedule_manager/types"
)

// VFakeScheduleManager is an overlay-only recorder implementing ScheduleManager.
type VFakeScheduleManager struct {
	Added   []smtypes.ScheduleEntry
	Removed []smtypes.ScheduleEntry
	Stopped bool
	C       chan string
}

func VNewFakeScheduleManager() *VFakeScheduleManager {
	return &VFakeScheduleManager{C: make(chan string, 1)}
}

func (f *VFakeScheduleManager) Stop()                          { f.Stopped = true }
func (f *VFakeScheduleManager) Start()                         {}
func (f *VFakeScheduleManager) Add(e smtypes.ScheduleEntry)    { f.Added = append(f.Added, e) }
func (f *VFakeScheduleManager) Remove(e smtypes.ScheduleEntry) { f.Removed = append(f.Removed, e) }
func (f *VFakeScheduleManager) Ch() chan string                { return f.C }
