package shell_operator

// C03 / C11 (c): events are turned into tasks of the binding's queue in the
// order they were received (thread model: events consumer + producer).

import (
	"context"
	"strconv"

	"github.com/deckhouse/deckhouse/pkg/log"

	"github.com/flant/shell-operator/pkg/hook"
	"github.com/flant/shell-operator/pkg/hook/config"
	. "github.com/flant/shell-operator/pkg/hook/task_metadata"
	htypes "github.com/flant/shell-operator/pkg/hook/types"
	kubeeventsmanager "github.com/flant/shell-operator/pkg/kube_events_manager"
	smtypes "github.com/flant/shell-operator/pkg/schedule_manager/types"
	"github.com/flant/shell-operator/pkg/task"
	"github.com/flant/shell-operator/pkg/task/queue"
	zz "github.com/flant/shell-operator/pkg/zzverif"
)

func VH_C03_events() {
	e := vhNewEnv()
	hook.VSkipInit = true
	crontabs := []string{"* * * * *", "*/5 * * * *"}
	// hookA: two schedule bindings with solver-chosen crontab and queue
	cfg := &config.HookConfig{Version: "v1"}
	nb := 2
	bq := make([]string, nb)
	bc := make([]int, nb)
	for i := 0; i < nb; i++ {
		si := strconv.Itoa(i)
		bc[i] = zz.Len("crontab"+si, 0, 1)
		bq[i] = zz.ConcretizeStr(zz.OneOf("queue"+si, "main", "q1"))
		sc := htypes.ScheduleConfig{ScheduleEntry: smtypes.ScheduleEntry{Crontab: crontabs[bc[i]], Id: "s" + si}, Queue: bq[i], Group: zz.OneOf("group"+si, "", "g1")}
		sc.BindingName = "sched" + si
		sc.AllowFailure = zz.Bool("allow" + si)
		cfg.Schedules = append(cfg.Schedules, sc)
	}
	h := e.addHook("hookA", cfg)
	e.finish()
	op := e.op
	op.TaskQueues.NewNamedQueue("main", nil)
	op.TaskQueues.NewNamedQueue("q1", nil)
	op.ManagerEventsHandler = newManagerEventsHandler(context.Background(), &managerEventsHandlerConfig{tqs: op.TaskQueues, mgr: e.kmgr, smgr: e.smgr, logger: log.NewNop()})
	zz.Assert(op.initHookManager() == nil, "hook_manager_initialises")
	h.HookController.EnableScheduleBindings()

	nticks := zz.Len("nticks", 1, zz.Param("maxticks", 2))
	ticks := make([]int, nticks)
	for i := range ticks {
		ticks[i] = zz.Len("tick"+strconv.Itoa(i), 0, 1)
	}
	want := map[string][]string{}
	total := 0
	for _, t := range ticks {
		for i := 0; i < nb; i++ {
			if bc[i] == t {
				want[bq[i]] = append(want[bq[i]], "sched"+strconv.Itoa(i))
				total++
			}
		}
	}
	op.ManagerEventsHandler.Start()
	zz.Go("cron", func() {
		for _, t := range ticks {
			e.smgr.C <- crontabs[t]
		}
	})
	count := func() int {
		return len(op.TaskQueues.Queues["main"].VItems()) + len(op.TaskQueues.Queues["q1"].VItems())
	}
	zz.WaitUntil(func() bool { return count() == total && len(e.smgr.C) == 0 })
	op.ManagerEventsHandler.cancel()
	for _, qn := range []string{"main", "q1"} {
		var got []string
		var items []task.Task = op.TaskQueues.Queues[qn].VItems()
		for _, t := range items {
			hm := HookMetadataAccessor(t)
			got = append(got, hm.Binding)
			zz.Assert(t.GetQueueName() == qn, "task_placed_in_its_bindings_queue")
			zz.Assert(hm.HookName == "hookA" && hm.BindingType == htypes.Schedule && len(hm.BindingContext) == 1, "task_describes_the_schedule_binding")
			for i := 0; i < nb; i++ {
				if hm.Binding == "sched"+strconv.Itoa(i) {
					zz.Assert(hm.AllowFailure == cfg.Schedules[i].AllowFailure && hm.Group == cfg.Schedules[i].Group, "task_carries_binding_settings")
				}
			}
		}
		zz.Assert(len(got) == len(want[qn]), "one_task_per_binding_per_tick")
		// per tick the bindings of one crontab may come in any order (map of links), ticks stay in order
		if len(got) == len(want[qn]) {
			for i := range got {
				found := false
				for j := range want[qn] {
					if want[qn][j] == got[i] {
						found = true
					}
				}
				zz.Assert(found, "tasks_belong_to_ticked_bindings")
			}
		}
	}
	zz.Reach("end")
}

// VH_C03_queues: every queue a kubernetes or schedule binding names exists and
// is started exactly once after initAndStartHookQueues, whatever mix of binding
// kinds the hooks have (a task for a missing queue is dropped by the events
// handler).
func VH_C03_queues() {
	e := vhNewEnv()
	hook.VSkipInit = true
	queue.VNoWorkers, queue.VStarted = true, nil
	names := []string{"main", "q1", "q2"}
	var used []string
	mkCfg := func(tag string) *config.HookConfig {
		cfg := &config.HookConfig{Version: "v1"}
		if zz.Bool(tag + "_has_schedule") {
			qn := zz.ConcretizeStr(zz.OneOf(tag+"_schedule_queue", names...))
			sc := htypes.ScheduleConfig{ScheduleEntry: smtypes.ScheduleEntry{Crontab: "* * * * *", Id: tag + "-s"}, Queue: qn}
			sc.BindingName = tag + "-sched"
			cfg.Schedules = append(cfg.Schedules, sc)
			used = append(used, qn)
		}
		nk := zz.Len(tag+"_kube_bindings", 0, 2)
		for i := 0; i < nk; i++ {
			qn := zz.ConcretizeStr(zz.OneOf(tag+"_kube_queue"+strconv.Itoa(i), names...))
			mc := &kubeeventsmanager.MonitorConfig{}
			mc.Metadata.MonitorId = tag + "-mon" + strconv.Itoa(i)
			kc := htypes.OnKubernetesEventConfig{Monitor: mc, Queue: qn}
			kc.BindingName = tag + "-kube" + strconv.Itoa(i)
			cfg.OnKubernetesEvents = append(cfg.OnKubernetesEvents, kc)
			used = append(used, qn)
		}
		return cfg
	}
	e.addHook("hookA", mkCfg("a"))
	e.addHook("hookB", mkCfg("b"))
	e.finish()
	op := e.op
	op.TaskQueues.NewNamedQueue("main", nil)
	op.initAndStartHookQueues()
	for _, qn := range used {
		zz.Assert(op.TaskQueues.GetByName(qn) != nil, "queue_named_by_a_binding_exists")
		if qn != "main" {
			n := 0
			for _, s := range queue.VStarted {
				if s == qn {
					n++
				}
			}
			zz.Assert(n == 1, "queue_named_by_a_binding_is_started_once")
		}
	}
	queue.VNoWorkers = false
	zz.Reach("end")
}
