package shell_operator

// C03 / C11 (c): events are turned into tasks of the binding's queue in the
// order they were received (thread model: events consumer + producer).

import (
	"context"
	"strconv"

	"github.com/deckhouse/deckhouse/pkg/log"

	"github.com/flant/shell-operator/pkg/hook"
	"github.com/flant/shell-operator/pkg/hook/config"
	. "github.com/flant/shell-operator/pkg/hook/task_metadata"
	htypes "github.com/flant/shell-operator/pkg/hook/types"
	smtypes "github.com/flant/shell-operator/pkg/schedule_manager/types"
	"github.com/flant/shell-operator/pkg/task"
	zz "github.com/flant/shell-operator/pkg/zzverif"
)

func VH_C03_events() {
	e := vhNewEnv()
	hook.VSkipInit = true
	crontabs := []string{"* * * * *", "*/5 * * * *"}
	// hookA: two schedule bindings with solver-chosen crontab and queue
	cfg := &config.HookConfig{Version: "v1"}
	nb := 2
	bq := make([]string, nb)
	bc := make([]int, nb)
	for i := 0; i < nb; i++ {
		si := strconv.Itoa(i)
		bc[i] = zz.Len("crontab"+si, 0, 1)
		bq[i] = zz.ConcretizeStr(zz.OneOf("queue"+si, "main", "q1"))
		sc := htypes.ScheduleConfig{ScheduleEntry: smtypes.ScheduleEntry{Crontab: crontabs[bc[i]], Id: "s" + si}, Queue: bq[i], Group: zz.OneOf("group"+si, "", "g1")}
		sc.BindingName = "sched" + si
		sc.AllowFailure = zz.Bool("allow" + si)
		cfg.Schedules = append(cfg.Schedules, sc)
	}
	h := e.addHook("hookA", cfg)
	e.finish()
	op := e.op
	op.TaskQueues.NewNamedQueue("main", nil)
	op.TaskQueues.NewNamedQueue("q1", nil)
	op.ManagerEventsHandler = newManagerEventsHandler(context.Background(), &managerEventsHandlerConfig{tqs: op.TaskQueues, mgr: e.kmgr, smgr: e.smgr, logger: log.NewNop()})
	zz.Assert(op.initHookManager() == nil, "hook_manager_initialises")
	h.HookController.EnableScheduleBindings()

	nticks := zz.Len("nticks", 1, zz.Param("maxticks", 2))
	ticks := make([]int, nticks)
	for i := range ticks {
		ticks[i] = zz.Len("tick"+strconv.Itoa(i), 0, 1)
	}
	want := map[string][]string{}
	total := 0
	for _, t := range ticks {
		for i := 0; i < nb; i++ {
			if bc[i] == t {
				want[bq[i]] = append(want[bq[i]], "sched"+strconv.Itoa(i))
				total++
			}
		}
	}
	op.ManagerEventsHandler.Start()
	zz.Go("cron", func() {
		for _, t := range ticks {
			e.smgr.C <- crontabs[t]
		}
	})
	count := func() int {
		return len(op.TaskQueues.Queues["main"].VItems()) + len(op.TaskQueues.Queues["q1"].VItems())
	}
	zz.WaitUntil(func() bool { return count() == total && len(e.smgr.C) == 0 })
	op.ManagerEventsHandler.cancel()
	for _, qn := range []string{"main", "q1"} {
		var got []string
		var items []task.Task = op.TaskQueues.Queues[qn].VItems()
		for _, t := range items {
			hm := HookMetadataAccessor(t)
			got = append(got, hm.Binding)
			zz.Assert(t.GetQueueName() == qn, "task_placed_in_its_bindings_queue")
			zz.Assert(hm.HookName == "hookA" && hm.BindingType == htypes.Schedule && len(hm.BindingContext) == 1, "task_describes_the_schedule_binding")
			for i := 0; i < nb; i++ {
				if hm.Binding == "sched"+strconv.Itoa(i) {
					zz.Assert(hm.AllowFailure == cfg.Schedules[i].AllowFailure && hm.Group == cfg.Schedules[i].Group, "task_carries_binding_settings")
				}
			}
		}
		zz.Assert(len(got) == len(want[qn]), "one_task_per_binding_per_tick")
		// per tick the bindings of one crontab may come in any order (map of links), ticks stay in order
		if len(got) == len(want[qn]) {
			for i := range got {
				found := false
				for j := range want[qn] {
					if want[qn][j] == got[i] {
						found = true
					}
				}
				zz.Assert(found, "tasks_belong_to_ticked_bindings")
			}
		}
	}
	zz.Reach("end")
}
