package shell_operator

// C04 (ii): outcome of a hook run over combined tasks with different
// allowFailure values.

import (
	"errors"
	"strconv"

	"github.com/flant/shell-operator/pkg/hook"
	bctx "github.com/flant/shell-operator/pkg/hook/binding_context"
	"github.com/flant/shell-operator/pkg/hook/config"
	. "github.com/flant/shell-operator/pkg/hook/task_metadata"
	htypes "github.com/flant/shell-operator/pkg/hook/types"
	kemtypes "github.com/flant/shell-operator/pkg/kube_events_manager/types"
	"github.com/flant/shell-operator/pkg/metric_storage/operation"
	"github.com/flant/shell-operator/pkg/task"
	zz "github.com/flant/shell-operator/pkg/zzverif"
)

func VH_C04_allow_failure() {
	e := vhNewEnv()
	e.addHook("hookA", &config.HookConfig{Version: "v1"})
	e.addHook("hookB", &config.HookConfig{Version: "v1"})
	e.finish()
	op := e.op
	op.TaskQueues.NewNamedQueue("main", nil)
	q := op.TaskQueues.GetByName("main")

	n := zz.Len("ntasks", 1, zz.Param("maxtasks", 3))
	allow := make([]bool, n)
	tasks := make([]task.Task, n)
	hooks := make([]string, n)
	btype := htypes.BindingType(zz.OneOf("btype", string(htypes.Schedule), string(htypes.OnKubernetesEvent), string(htypes.OnStartup)))
	for i := 0; i < n; i++ {
		si := strconv.Itoa(i)
		allow[i] = zz.Bool("allow" + si)
		hooks[i] = "hookA"
		if i > 0 {
			hooks[i] = zz.OneOf("hook"+si, "hookA", "hookB")
		}
		bc := bctx.BindingContext{Binding: "b" + si}
		bc.Metadata.BindingType = btype
		meta := HookMetadata{HookName: hooks[i], Binding: "b" + si, BindingType: btype, AllowFailure: allow[i], ExecuteOnSynchronization: true}
		if btype == htypes.OnKubernetesEvent {
			// kubernetes tasks are Events or Synchronizations; a grouped Synchronization may be
			// combined with what follows (every task has its own group: no compaction here)
			bc.Type = kemtypes.TypeEvent
			if zz.Bool("synchronization" + si) {
				bc.Type = kemtypes.TypeSynchronization
			}
			if zz.Bool("grouped" + si) {
				meta.Group = "g" + si
				bc.Metadata.Group = "g" + si
			}
		}
		meta.BindingContext = []bctx.BindingContext{bc}
		bt := task.NewTask(HookRun).WithQueueName("main").WithMetadata(meta)
		bt.Id = "t" + si
		tasks[i] = bt
		q.AddLast(bt)
	}
	runFails := zz.Bool("run_fails")
	metricsFail := zz.Bool("metrics_rejected")
	var executed []string
	runs := 0
	hook.VRunFn = func(h *hook.Hook, _ htypes.BindingType, ctxs []bctx.BindingContext, _ map[string]string) (*hook.Result, error) {
		runs++
		for _, c := range ctxs {
			executed = append(executed, c.Binding)
		}
		if runFails {
			return &hook.Result{}, errors.New("exit status 1")
		}
		return &hook.Result{}, nil
	}
	e.hmstor.SendBatchFn = func(ops []operation.MetricOperation, labels map[string]string) error {
		if metricsFail {
			return errors.New("bad metrics")
		}
		return nil
	}

	res := op.taskHandleHookRun(tasks[0])

	zz.Assert(runs == 1, "hook_executed_once")
	failed := runFails || metricsFail
	// which tasks had their contexts executed
	mustKeep := false
	for i := 0; i < n; i++ {
		ran := false
		for _, b := range executed {
			if b == "b"+strconv.Itoa(i) {
				ran = true
			}
		}
		if i == 0 {
			zz.Assert(ran, "head_context_executed")
		}
		if ran && !allow[i] {
			mustKeep = true
		}
	}
	zz.Class("merged_allow_failure_differs", n > 1 && allow[0])
	if !failed {
		zz.Assert(res.Status == "Success", "success_is_success")
	} else if mustKeep {
		zz.Assert(res.Status == "Fail", "failure_of_non_allowfailure_context_is_retried")
	} else {
		zz.Assert(res.Status == "Success", "allowed_failure_is_dropped")
	}
	if failed && res.Status == "Fail" {
		// the failed contexts are still owned by the head task, which stays queued
		zz.Assert(q.GetFirst() == tasks[0], "failed_task_stays_at_head")
		hm := HookMetadataAccessor(tasks[0])
		for _, b := range executed {
			found := false
			for _, c := range hm.BindingContext {
				if c.Binding == b {
					found = true
				}
			}
			zz.Assert(found, "failed_contexts_kept_for_retry")
		}
	}
	// every context is either executed now or still queued (nothing vanishes)
	for i := 0; i < n; i++ {
		ran := false
		for _, b := range executed {
			if b == "b"+strconv.Itoa(i) {
				ran = true
			}
		}
		queued := false
		q.Iterate(func(t task.Task) {
			if t == tasks[i] {
				queued = true
			}
		})
		zz.Assert(ran || queued, "context_neither_executed_nor_queued")
	}
	zz.Reach("end")
}
