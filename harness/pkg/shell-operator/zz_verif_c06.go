package shell_operator

// C06: startup order.

import (
	"errors"
	"strconv"

	"github.com/flant/shell-operator/pkg/hook"
	bctx "github.com/flant/shell-operator/pkg/hook/binding_context"
	"github.com/flant/shell-operator/pkg/hook/config"
	. "github.com/flant/shell-operator/pkg/hook/task_metadata"
	htypes "github.com/flant/shell-operator/pkg/hook/types"
	kubeeventsmanager "github.com/flant/shell-operator/pkg/kube_events_manager"
	kemtypes "github.com/flant/shell-operator/pkg/kube_events_manager/types"
	smtypes "github.com/flant/shell-operator/pkg/schedule_manager/types"
	"github.com/flant/shell-operator/pkg/task"
	"github.com/flant/shell-operator/pkg/task/queue"
	zz "github.com/flant/shell-operator/pkg/zzverif"
)

func vhHookName(i int) string {
	if i < 10 {
		return "h0" + strconv.Itoa(i)
	}
	return "h" + strconv.Itoa(i)
}

// VH_C06_bootstrap: the main queue after bootstrap = onStartup tasks by
// (order, name), then per hook in name order enable-kubernetes, enable-schedule.
func VH_C06_bootstrap() {
	e := vhNewEnv()
	mode := zz.Param("mode", 0)
	var n int
	if mode == 0 {
		n = zz.Len("nhooks", 1, zz.Param("maxhooks", 4))
	} else {
		n = zz.Param("nhooks", 13)
	}
	orders := make([]float64, n)
	hasStartup := make([]bool, n)
	hasKube := make([]bool, n)
	hasSched := make([]bool, n)
	// mode 1: every ORDER is 0 except one solver-chosen position holding 1
	special := -1
	if mode == 1 {
		special = zz.Pick("special", n)
	}
	for i := 0; i < n; i++ {
		si := strconv.Itoa(i)
		cfg := &config.HookConfig{Version: "v1"}
		if mode == 0 {
			hasStartup[i] = zz.Bool("startup" + si)
			orders[i] = zz.Float("order"+si, 1, 2, 3)
			hasKube[i] = zz.Bool("kube" + si)
			hasSched[i] = zz.Bool("sched" + si)
		} else {
			hasStartup[i] = true
			orders[i] = float64(zz.IteInt(special == i, 1, 0))
		}
		if hasStartup[i] {
			cfg.OnStartup = &htypes.OnStartupConfig{Order: orders[i]}
			cfg.OnStartup.BindingName = "onStartup"
		}
		if hasKube[i] {
			mc := &kubeeventsmanager.MonitorConfig{}
			mc.Metadata.MonitorId = "mon-" + si
			cfg.OnKubernetesEvents = []htypes.OnKubernetesEventConfig{{Monitor: mc, Queue: "main"}}
		}
		if hasSched[i] {
			cfg.Schedules = []htypes.ScheduleConfig{{ScheduleEntry: smtypes.ScheduleEntry{Crontab: "* * * * *", Id: "s" + si}, Queue: "main"}}
		}
		e.addHook(vhHookName(i), cfg)
	}
	e.finish()
	e.op.bootstrapMainQueue(e.op.TaskQueues)

	var got []task.Task
	e.op.TaskQueues.GetMain().Iterate(func(t task.Task) { got = append(got, t) })
	idx := 0
	// onStartup prefix: every onStartup hook once; sorted by order, then by name
	nStartup := 0
	for i := 0; i < n; i++ {
		if hasStartup[i] {
			nStartup++
		}
	}
	zz.Assert(len(got) >= nStartup, "every_onstartup_hook_queued")
	prevOrder := 0.0
	prevName := ""
	seen := map[string]int{}
	for ; idx < nStartup && idx < len(got); idx++ {
		hm := HookMetadataAccessor(got[idx])
		zz.Assert(got[idx].GetType() == HookRun && hm.BindingType == htypes.OnStartup, "onstartup_tasks_come_first")
		seen[hm.HookName]++
		var ord float64
		for i := 0; i < n; i++ {
			if vhHookName(i) == hm.HookName {
				ord = orders[i]
			}
		}
		if idx > 0 {
			zz.Assert(prevOrder <= ord, "onstartup_sorted_by_order")
			zz.Assert(zz.Implies(prevOrder == ord, prevName < hm.HookName), "equal_order_sorted_by_name")
		}
		prevOrder, prevName = ord, hm.HookName
	}
	for i := 0; i < n; i++ {
		if hasStartup[i] {
			zz.Assert(seen[vhHookName(i)] == 1, "every_onstartup_hook_queued_once")
		}
	}
	// then, per hook in name order: enable kubernetes, enable schedule
	for i := 0; i < n; i++ {
		if hasKube[i] {
			zz.Assert(idx < len(got), "enable_tasks_follow_in_hook_order")
			if idx < len(got) {
				zz.Assert(got[idx].GetType() == EnableKubernetesBindings && HookMetadataAccessor(got[idx]).HookName == vhHookName(i), "enable_tasks_follow_in_hook_order")
			}
			idx++
		}
		if hasSched[i] {
			zz.Assert(idx < len(got), "enable_tasks_follow_in_hook_order")
			if idx < len(got) {
				zz.Assert(got[idx].GetType() == EnableScheduleBindings && HookMetadataAccessor(got[idx]).HookName == vhHookName(i), "schedules_enabled_after_kubernetes_of_same_hook")
			}
			idx++
		}
	}
	zz.Assert(idx == len(got), "no_other_startup_tasks")
	zz.Reach("end")
}

// vhDrain emulates the documented placement of handler results (checked
// against the real worker loop by C05/C03) and runs the head task until the
// queue is empty or the step budget is used.
func vhDrain(op *ShellOperator, q *queue.TaskQueue, maxSteps int, onRun func(t task.Task)) {
	for step := 0; step < maxSteps && !q.IsEmpty(); step++ {
		t := q.GetFirst()
		if onRun != nil {
			onRun(t)
		}
		res := op.taskHandler(t)
		switch res.Status {
		case queue.Success:
			for i := len(res.AfterTasks) - 1; i >= 0; i-- {
				q.AddAfter(t.GetId(), res.AfterTasks[i])
			}
			q.Remove(t.GetId())
			for i := len(res.HeadTasks) - 1; i >= 0; i-- {
				q.AddFirst(res.HeadTasks[i])
			}
			for _, nt := range res.TailTasks {
				q.AddLast(nt)
			}
		case queue.Fail:
			t.IncrementFailureCount()
		}
	}
}

// VH_C06_sync: enabling the kubernetes bindings of a hook delivers each
// Synchronization exactly when the binding asks for it.
func VH_C06_sync() {
	e := vhNewEnv()
	nb := zz.Len("nbindings", 1, zz.Param("maxbindings", 3))
	version := zz.OneOf("version", "v1", "v0")
	cfg := &config.HookConfig{Version: zz.ConcretizeStr(version)}
	exec := make([]bool, nb)
	group := make([]string, nb)
	// allowFailure (the same for all bindings of the hook): a failed Synchronization
	// run is then dropped instead of retried - and the events are unlocked all the same
	allow := zz.Bool("allow_failure")
	// the bindings may name their own queue (for their Events): Synchronizations are
	// delivered in the main queue all the same
	bqueue := zz.ConcretizeStr(zz.OneOf("bindings_queue", "main", "q1"))
	for i := 0; i < nb; i++ {
		si := strconv.Itoa(i)
		exec[i] = zz.Bool("exec_on_sync" + si)
		group[i] = zz.OneOf("group"+si, "", "g1")
		mc := &kubeeventsmanager.MonitorConfig{}
		mc.Metadata.MonitorId = "mon-" + si
		cfg.OnKubernetesEvents = append(cfg.OnKubernetesEvents, htypes.OnKubernetesEventConfig{
			CommonBindingConfig: htypes.CommonBindingConfig{BindingName: "kb" + si, AllowFailure: allow},
			Monitor:             mc, Queue: bqueue, Group: group[i], ExecuteHookOnSynchronization: exec[i],
		})
	}
	cfg.Schedules = []htypes.ScheduleConfig{{ScheduleEntry: smtypes.ScheduleEntry{Crontab: "* * * * *", Id: "s0"}, Queue: "main"}}
	h := e.addHook("hookA", cfg)
	_ = h
	e.finish()
	op := e.op
	op.bootstrapMainQueue(op.TaskQueues)
	if bqueue != "main" {
		// initAndStartHookQueues creates the queues the bindings name
		op.TaskQueues.NewNamedQueue(bqueue, nil)
	}
	q := op.TaskQueues.GetMain()

	// creating the monitor of one binding may fail once (its CRD is not installed
	// yet): the EnableKubernetesBindings task fails and is retried
	failAdd := zz.Len("monitor_add_fails_once_at", 0, nb)
	addFailed := false
	e.kmgr.AddErr = func(id string) error {
		if failAdd > 0 && !addFailed && id == "mon-"+strconv.Itoa(failAdd-1) {
			addFailed = true
			return errors.New("no kind CronTab is registered")
		}
		return nil
	}
	failFirst := zz.Bool("first_run_fails")
	runs := 0
	var delivered [][]string // per execution: "binding/type/group"
	hook.VRunFn = func(h *hook.Hook, _ htypes.BindingType, ctxs []bctx.BindingContext, _ map[string]string) (*hook.Result, error) {
		runs++
		var d []string
		for _, c := range ctxs {
			d = append(d, c.Binding+"/"+string(c.Type)+"/"+c.Metadata.Group)
		}
		delivered = append(delivered, d)
		if failFirst && runs == 1 {
			return &hook.Result{}, errors.New("exit 1")
		}
		return &hook.Result{}, nil
	}
	schedEnabledAtRun := -1
	vhDrain(op, q, 12, func(t task.Task) {
		if t.GetType() == EnableScheduleBindings && schedEnabledAtRun < 0 {
			schedEnabledAtRun = runs
		}
	})
	zz.Assert(q.IsEmpty(), "startup_tasks_complete")

	// how often was each binding's Synchronization handed to the hook?
	// ungrouped bindings: their own context; bindings of a group share one execution
	for i := 0; i < nb; i++ {
		if group[i] == "" {
			want := version == "v1" && exec[i]
			cnt, okRuns := 0, 0
			for r, d := range delivered {
				for _, s := range d {
					if s == "kb"+strconv.Itoa(i)+"/"+string(kemtypes.TypeSynchronization)+"/" {
						cnt++
						if !(failFirst && r == 0) {
							okRuns++
						}
					}
				}
			}
			inFailedRun := false
			if failFirst && len(delivered) > 0 {
				for _, s := range delivered[0] {
					if s == "kb"+strconv.Itoa(i)+"/"+string(kemtypes.TypeSynchronization)+"/" {
						inFailedRun = true
					}
				}
			}
			switch {
			case !want:
				zz.Assert(cnt == 0, "no_synchronization_when_not_requested")
			case inFailedRun && allow:
				zz.Assert(cnt == 1 && okRuns == 0, "allowed_failure_is_not_retried")
			default:
				zz.Assert(okRuns == 1, "synchronization_delivered_once")
			}
		}
		// the monitor is unlocked exactly once, after its Synchronization step
		zz.Assert(e.kmgr.Monitors["mon-"+strconv.Itoa(i)].EnableCbN == 1, "events_unlocked_once_after_synchronization")
	}
	for _, g := range []string{"g1"} {
		members, wanting := 0, 0
		for i := 0; i < nb; i++ {
			if group[i] == g {
				members++
				if version == "v1" && exec[i] {
					wanting++
				}
			}
		}
		if members == 0 {
			continue
		}
		runsWith, okRunsWith := 0, 0
		for r, d := range delivered {
			has := false
			for _, s := range d {
				if len(s) > len(g) && s[len(s)-len(g)-1:] == "/"+g {
					has = true
				}
			}
			if has {
				runsWith++
				if !(failFirst && r == 0) {
					okRunsWith++
				}
			}
		}
		if wanting == 0 {
			zz.Assert(runsWith == 0, "no_group_synchronization_when_no_member_requests_it")
		} else if failFirst && allow {
			zz.Assert(runsWith >= 1, "group_synchronization_delivered")
		} else {
			zz.Assert(okRunsWith >= 1, "group_synchronization_delivered")
			zz.Assert(okRunsWith <= wanting, "group_members_share_executions")
		}
	}
	// a group whose members all ask for Synchronization, with nothing failing, gets
	// exactly one execution
	allG1 := version == "v1" && !failFirst && failAdd == 0
	for i := 0; i < nb; i++ {
		if group[i] != "g1" || !exec[i] {
			allG1 = false
		}
	}
	if allG1 {
		zz.Assert(len(delivered) == 1, "group_synchronization_is_one_execution")
	}
	// schedules start producing tasks only after every Synchronization ran
	zz.Assert(schedEnabledAtRun == runs, "schedules_enabled_after_synchronizations")
	zz.Reach("end")
}
