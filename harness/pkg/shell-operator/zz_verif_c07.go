package shell_operator

// C07: combining adjacent tasks keeps every binding context, in order.

import (
	"context"
	htypes "github.com/flant/shell-operator/pkg/hook/types"
	"strconv"

	"github.com/deckhouse/deckhouse/pkg/log"

	bctx "github.com/flant/shell-operator/pkg/hook/binding_context"
	. "github.com/flant/shell-operator/pkg/hook/task_metadata"
	"github.com/flant/shell-operator/pkg/task"
	"github.com/flant/shell-operator/pkg/task/queue"
	zz "github.com/flant/shell-operator/pkg/zzverif"
)

type vhTaskDesc struct {
	t       task.Task
	hasMeta bool
	hook    string
	typ     string
	ctxs    []bctx.BindingContext
	mon     []string
}

// vhNewOperator builds an operator with a main queue that is never started.
func vhNewOperator() (*ShellOperator, *queue.TaskQueue) {
	zz.Setenv("QUEUE_ACTIONS_METRICS", "no")
	op := &ShellOperator{logger: log.NewNop()}
	op.TaskQueues = queue.NewTaskQueueSet()
	op.TaskQueues.WithContext(context.Background())
	op.TaskQueues.NewNamedQueue("main", nil)
	return op, op.TaskQueues.GetByName("main")
}

func vhC07Task(i int, nctxMax int) vhTaskDesc {
	si := strconv.Itoa(i)
	d := vhTaskDesc{}
	d.hook = zz.OneOf("hook"+si, "hookA", "hookB")
	d.typ = zz.OneOf("type"+si, string(HookRun), string(EnableKubernetesBindings))
	bt := task.NewTask(task.TaskType(d.typ)).WithQueueName("main")
	bt.Id = "t" + si
	d.t = bt
	d.hasMeta = true
	if i > 0 && zz.Bool("nometa"+si) {
		d.hasMeta = false
		return d
	}
	nctx := zz.Len("nctx"+si, 1, nctxMax)
	for j := 0; j < nctx; j++ {
		bc := bctx.BindingContext{Binding: "c" + si + "_" + strconv.Itoa(j)}
		bc.Metadata.Group = zz.OneOf("group"+si+"_"+strconv.Itoa(j), "", "g1", "g2")
		// a group may be shared by bindings of different kinds (kubernetes and schedule)
		bc.Metadata.BindingType = htypes.BindingType(zz.OneOf("btype"+si+"_"+strconv.Itoa(j), string(htypes.OnKubernetesEvent), string(htypes.Schedule)))
		d.ctxs = append(d.ctxs, bc)
	}
	if zz.Bool("mon" + si) {
		d.mon = []string{"m" + si}
	}
	bt.WithMetadata(HookMetadata{HookName: d.hook, BindingContext: d.ctxs, MonitorIDs: d.mon})
	return d
}

func vhC07Run(exported bool) {
	op, q := vhNewOperator()
	n := zz.Len("ntasks", 1, zz.Param("maxtasks", 4))
	descs := make([]vhTaskDesc, n)
	for i := 0; i < n; i++ {
		descs[i] = vhC07Task(i, zz.Param("maxctx", 2))
		q.AddLast(descs[i].t)
	}
	head := descs[0]

	// reference: the maximal run of following tasks of the same hook and type
	merged := make([]bool, n)
	stop := false
	nmerged := 0
	for i := 1; i < n; i++ {
		if stop {
			break
		}
		if !descs[i].hasMeta {
			stop = true
		} else if descs[i].hook == head.hook && descs[i].typ == head.typ {
			merged[i] = true
			nmerged++
		} else {
			stop = true
		}
	}
	var all []bctx.BindingContext
	var mons []string
	all = append(all, head.ctxs...)
	mons = append(mons, head.mon...)
	for i := 1; i < n; i++ {
		if merged[i] {
			all = append(all, descs[i].ctxs...)
			mons = append(mons, descs[i].mon...)
		}
	}
	var want []bctx.BindingContext
	for i := range all {
		g := all[i].Metadata.Group
		if g != "" && i+1 < len(all) && all[i+1].Metadata.Group == g {
			continue
		}
		want = append(want, all[i])
	}

	var res *CombineResult
	if exported {
		res = op.CombineBindingContextForHook(q, head.t, nil)
	} else {
		res = op.combineBindingContextForHook(op.TaskQueues, q, head.t, nil)
	}

	if nmerged == 0 {
		zz.Assert(res == nil, "nil_result_iff_nothing_to_merge")
	} else {
		zz.Assert(res != nil, "nil_result_iff_nothing_to_merge")
	}
	if res != nil {
		zz.Assert(len(res.BindingContexts) == len(want), "contexts_are_concatenation_minus_compaction")
		if len(res.BindingContexts) == len(want) {
			for i := range want {
				zz.Assert(res.BindingContexts[i].Binding == want[i].Binding, "contexts_are_concatenation_minus_compaction")
				zz.Assert(res.BindingContexts[i].Metadata.Group == want[i].Metadata.Group, "context_group_preserved")
			}
		}
		zz.Assert(len(res.MonitorIDs) == len(mons), "monitor_ids_concatenated")
		if len(res.MonitorIDs) == len(mons) {
			for i := range mons {
				zz.Assert(res.MonitorIDs[i] == mons[i], "monitor_ids_concatenated")
			}
		}
	}
	// queue afterwards: head + every task that was not merged, in order
	var left []task.Task
	for i := 0; i < n; i++ {
		if !merged[i] {
			left = append(left, descs[i].t)
		}
	}
	var got []task.Task
	q.Iterate(func(t task.Task) { got = append(got, t) })
	zz.Assert(len(got) == len(left), "exactly_merged_tasks_disappear")
	if len(got) == len(left) {
		for i := range left {
			zz.Assert(got[i] == left[i], "other_tasks_keep_their_place")
		}
	}
	// the head's own metadata is not modified by combining
	hm := head.t.GetMetadata().(HookMetadata)
	zz.Assert(len(hm.BindingContext) == len(head.ctxs), "head_metadata_untouched")
	zz.Reach("end")
}

func VH_C07_combine()          { vhC07Run(false) }
func VH_C07_combine_exported() { vhC07Run(true) }

// VH_C07_concurrent: events keep arriving while the head task is being combined:
// a producer appends a task to the same queue at an arbitrary moment of the
// combining.  Afterwards every task is accounted for: it was merged (its
// context is in the result and it left the queue) or it is still queued - a
// late task never vanishes.
func VH_C07_concurrent() {
	op, q := vhNewOperator()
	mk := func(id, hookName string) task.Task {
		bc := bctx.BindingContext{Binding: "c-" + id}
		bt := task.NewTask(HookRun).WithQueueName("main").WithMetadata(HookMetadata{HookName: hookName, BindingContext: []bctx.BindingContext{bc}})
		bt.Id = id
		return bt
	}
	head := mk("head", "hookA")
	q.AddLast(head)
	n := zz.Len("following", 0, 2)
	var follow []task.Task
	for i := 0; i < n; i++ {
		hn := zz.ConcretizeStr(zz.OneOf("hook"+strconv.Itoa(i), "hookA", "hookB"))
		t := mk("t"+strconv.Itoa(i), hn)
		follow = append(follow, t)
		q.AddLast(t)
	}
	late := mk("late", zz.ConcretizeStr(zz.OneOf("late_hook", "hookA", "hookB")))
	producerDone := false
	zz.Go("producer", func() {
		q.AddLast(late)
		producerDone = true
	})
	res := op.combineBindingContextForHook(op.TaskQueues, q, head, nil)
	zz.WaitUntil(func() bool { return producerDone })

	inResult := func(id string) bool {
		if res == nil {
			return false
		}
		for _, c := range res.BindingContexts {
			if c.Binding == "c-"+id {
				return true
			}
		}
		return false
	}
	inQueue := func(t task.Task) bool {
		found := false
		q.Iterate(func(x task.Task) {
			if x == t {
				found = true
			}
		})
		return found
	}
	zz.Assert(inQueue(head), "head_task_stays_queued")
	for _, t := range append(follow, late) {
		merged, queued := inResult(t.GetId()), inQueue(t)
		zz.Assert(merged || queued, "task_neither_merged_nor_queued")
		zz.Assert(!(merged && queued), "merged_task_leaves_the_queue")
	}
	zz.Reach("end")
}
