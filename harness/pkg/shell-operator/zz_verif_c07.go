package shell_operator

// C07: combining adjacent tasks keeps every binding context, in order.

import (
	"context"
	htypes "github.com/flant/shell-operator/pkg/hook/types"
	"strconv"

	"github.com/deckhouse/deckhouse/pkg/log"

	bctx "github.com/flant/shell-operator/pkg/hook/binding_context"
	. "github.com/flant/shell-operator/pkg/hook/task_metadata"
	"github.com/flant/shell-operator/pkg/task"
	"github.com/flant/shell-operator/pkg/task/queue"
	zz "github.com/flant/shell-operator/pkg/zzverif"
)

type vhTaskDesc struct {
	t       task.Task
	hasMeta bool
	hook    string
	typ     string
	ctxs    []bctx.BindingContext
	mon     []string
}

// vhNewOperator builds an operator with a main queue that is never started.
func vhNewOperator() (*ShellOperator, *queue.TaskQueue) {
	zz.Setenv("QUEUE_ACTIONS_METRICS", "no")
	op := &ShellOperator{logger: log.NewNop()}
	op.TaskQueues = queue.NewTaskQueueSet()
	op.TaskQueues.WithContext(context.Background())
	op.TaskQueues.NewNamedQueue("main", nil)
	return op, op.TaskQueues.GetByName("main")
}

func vhC07Task(i int, nctxMax int) vhTaskDesc {
	si := strconv.Itoa(i)
	d := vhTaskDesc{}
	d.hook = zz.OneOf("hook"+si, "hookA", "hookB")
	d.typ = zz.OneOf("type"+si, string(HookRun), string(EnableKubernetesBindings))
	bt := task.NewTask(task.TaskType(d.typ)).WithQueueName("main")
	bt.Id = "t" + si
	d.t = bt
	d.hasMeta = true
	if i > 0 && zz.Bool("nometa"+si) {
		d.hasMeta = false
		return d
	}
	nctx := zz.Len("nctx"+si, 1, nctxMax)
	for j := 0; j < nctx; j++ {
		bc := bctx.BindingContext{Binding: "c" + si + "_" + strconv.Itoa(j)}
		bc.Metadata.Group = zz.OneOf("group"+si+"_"+strconv.Itoa(j), "", "g1", "g2")
		// a group may be shared by bindings of different kinds (kubernetes and schedule)
		bc.Metadata.BindingType = htypes.BindingType(zz.OneOf("btype"+si+"_"+strconv.Itoa(j), string(htypes.OnKubernetesEvent), string(htypes.Schedule)))
		d.ctxs = append(d.ctxs, bc)
	}
	if zz.Bool("mon" + si) {
		d.mon = []string{"m" + si}
	}
	bt.WithMetadata(HookMetadata{HookName: d.hook, BindingContext: d.ctxs, MonitorIDs: d.mon})
	return d
}

func vhC07Run(exported bool) {
	op, q := vhNewOperator()
	n := zz.Len("ntasks", 1, zz.Param("maxtasks", 4))
	descs := make([]vhTaskDesc, n)
	for i := 0; i < n; i++ {
		descs[i] = vhC07Task(i, zz.Param("maxctx", 2))
		q.AddLast(descs[i].t)
	}
	head := descs[0]

	// reference: the maximal run of following tasks of the same hook and type
	merged := make([]bool, n)
	stop := false
	nmerged := 0
	for i := 1; i < n; i++ {
		if stop {
			break
		}
		if !descs[i].hasMeta {
			stop = true
		} else if descs[i].hook == head.hook && descs[i].typ == head.typ {
			merged[i] = true
			nmerged++
		} else {
			stop = true
		}
	}
	var all []bctx.BindingContext
	var mons []string
	all = append(all, head.ctxs...)
	mons = append(mons, head.mon...)
	for i := 1; i < n; i++ {
		if merged[i] {
			all = append(all, descs[i].ctxs...)
			mons = append(mons, descs[i].mon...)
		}
	}
	var want []bctx.BindingContext
	for i := range all {
		g := all[i].Metadata.Group
		if g != "" && i+1 < len(all) && all[i+1].Metadata.Group == g {
			continue
		}
		want = append(want, all[i])
	}

	var res *CombineResult
	if exported {
		res = op.CombineBindingContextForHook(q, head.t, nil)
	} else {
		res = op.combineBindingContextForHook(op.TaskQueues, q, head.t, nil)
	}

	if nmerged == 0 {
		zz.Assert(res == nil, "nil_result_iff_nothing_to_merge")
	} else {
		zz.Assert(res != nil, "nil_result_iff_nothing_to_merge")
	}
	if res != nil {
		zz.Assert(len(res.BindingContexts) == len(want), "contexts_are_concatenation_minus_compaction")
		if len(res.BindingContexts) == len(want) {
			for i := range want {
				zz.Assert(res.BindingContexts[i].Binding == want[i].Binding, "contexts_are_concatenation_minus_compaction")
				zz.Assert(res.BindingContexts[i].Metadata.Group == want[i].Metadata.Group, "context_group_preserved")
			}
		}
		zz.Assert(len(res.MonitorIDs) == len(mons), "monitor_ids_concatenated")
		if len(res.MonitorIDs) == len(mons) {
			for i := range mons {
				zz.Assert(res.MonitorIDs[i] == mons[i], "monitor_ids_concatenated")
			}
		}
	}
	// queue afterwards: head + every task that was not merged, in order
	var left []task.Task
	for i := 0; i < n; i++ {
		if !merged[i] {
			left = append(left, descs[i].t)
		}
	}
	var got []task.Task
	q.Iterate(func(t task.Task) { got = append(got, t) })
	zz.Assert(len(got) == len(left), "exactly_merged_tasks_disappear")
	if len(got) == len(left) {
		for i := range left {
			zz.Assert(got[i] == left[i], "other_tasks_keep_their_place")
		}
	}
	// the head's own metadata is not modified by combining
	hm := head.t.GetMetadata().(HookMetadata)
	zz.Assert(len(hm.BindingContext) == len(head.ctxs), "head_metadata_untouched")
	zz.Reach("end")
}

func VH_C07_combine()          { vhC07Run(false) }
func VH_C07_combine_exported() { vhC07Run(true) }
