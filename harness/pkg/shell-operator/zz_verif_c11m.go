package shell_operator

// C11 (manager half): a schedule tick is handed to exactly the bindings with
// that crontab of the hooks whose schedule bindings are enabled *now* -
// whatever was enabled when the crontab fired before.  Two hooks that may share
// a crontab; every sequence of <= N steps of {enable A, enable B, disable A,
// disable B, tick c0, tick c1}.
//
// Real code: hook.Manager.HandleScheduleEvent, GetHooksInOrder,
// HookController.CanHandleScheduleEvent / HandleScheduleEvent /
// EnableScheduleBindings / DisableScheduleBindings, the schedule bindings
// controller.  The schedule manager is the recording fake.

import (
	"strconv"

	"github.com/flant/shell-operator/pkg/hook"
	"github.com/flant/shell-operator/pkg/hook/config"
	"github.com/flant/shell-operator/pkg/hook/controller"
	htypes "github.com/flant/shell-operator/pkg/hook/types"
	smtypes "github.com/flant/shell-operator/pkg/schedule_manager/types"
	zz "github.com/flant/shell-operator/pkg/zzverif"
)

func VH_C11_manager() {
	e := vhNewEnv()
	crontabs := []string{"* * * * *", "*/5 * * * *"}
	names := []string{"hookA", "hookB"}
	cron := make([]int, 2)
	hooks := make([]*hook.Hook, 2)
	for i, n := range names {
		cron[i] = zz.Len("crontab_of_"+n, 0, 1)
		cfg := &config.HookConfig{Version: "v1"}
		sc := htypes.ScheduleConfig{ScheduleEntry: smtypes.ScheduleEntry{Crontab: crontabs[cron[i]], Id: "s-" + n}, Queue: "main"}
		sc.BindingName = "sched-" + n
		cfg.Schedules = append(cfg.Schedules, sc)
		hooks[i] = e.addHook(n, cfg)
	}
	e.finish()
	enabled := make([]bool, 2)
	steps := zz.Len("steps", 1, zz.Param("maxsteps", 4))
	for s := 0; s < steps; s++ {
		kind := zz.Len("step"+strconv.Itoa(s), 0, 5)
		switch kind {
		case 0, 1:
			hooks[kind].HookController.EnableScheduleBindings()
			enabled[kind] = true
		case 2, 3:
			hooks[kind-2].HookController.DisableScheduleBindings()
			enabled[kind-2] = false
		default:
			c := kind - 4
			var got []string
			e.op.HookManager.HandleScheduleEvent(crontabs[c], func(h *hook.Hook, info controller.BindingExecutionInfo) {
				got = append(got, h.Name+"/"+info.Binding)
			})
			var want []string
			for i, n := range names {
				if enabled[i] && cron[i] == c {
					want = append(want, n+"/sched-"+n)
				}
			}
			zz.Assert(len(got) == len(want), "tick_reaches_exactly_the_enabled_bindings_with_that_crontab")
			if len(got) == len(want) {
				for i := range got {
					zz.Assert(got[i] == want[i], "tick_reaches_exactly_the_enabled_bindings_with_that_crontab")
				}
			}
		}
	}
	zz.Reach("end")
}
