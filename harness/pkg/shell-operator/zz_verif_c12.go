package shell_operator

// C12/C13 (operator glue): outputs of a hook run are parsed and applied; a
// malformed or rejected output fails the execution; nothing of an invalid
// patch stream is applied.

import (
	"errors"

	sdkpkg "github.com/deckhouse/module-sdk/pkg"

	"github.com/flant/shell-operator/pkg/hook"
	bctx "github.com/flant/shell-operator/pkg/hook/binding_context"
	"github.com/flant/shell-operator/pkg/hook/config"
	. "github.com/flant/shell-operator/pkg/hook/task_metadata"
	htypes "github.com/flant/shell-operator/pkg/hook/types"
	objectpatch "github.com/flant/shell-operator/pkg/kube/object_patch"
	"github.com/flant/shell-operator/pkg/metric_storage/operation"
	"github.com/flant/shell-operator/pkg/task"
	"github.com/flant/shell-operator/pkg/webhook/admission"
	"github.com/flant/shell-operator/pkg/webhook/conversion"
	zz "github.com/flant/shell-operator/pkg/zzverif"
)

func VH_C12_outputs() {
	e := vhNewEnv()
	e.addHook("hookA", &config.HookConfig{Version: "v1"})
	e.finish()
	op := e.op
	op.ObjectPatcher = &objectpatch.ObjectPatcher{}
	op.TaskQueues.NewNamedQueue("main", nil)

	runFails := zz.Bool("nonzero_exit")
	hasPatch := zz.Bool("writes_patch")
	patchInvalid := zz.Bool("patch_stream_invalid")
	applyFails := zz.Bool("patch_apply_fails")
	metricsRejected := zz.Bool("metrics_rejected")
	hasAdmission := zz.Bool("writes_admission_response")
	hasConversion := zz.Bool("writes_conversion_response")
	allowFailure := zz.Bool("allow_failure")

	bc := bctx.BindingContext{Binding: "b"}
	bc.Metadata.BindingType = htypes.Schedule
	bt := task.NewTask(HookRun).WithQueueName("main").WithMetadata(HookMetadata{HookName: "hookA", Binding: "b", BindingType: htypes.Schedule, AllowFailure: allowFailure, BindingContext: []bctx.BindingContext{bc}})
	op.TaskQueues.GetMain().AddLast(bt)

	ar := &admission.Response{Allowed: true}
	cr := &conversion.Response{}
	hook.VRunFn = func(h *hook.Hook, _ htypes.BindingType, ctxs []bctx.BindingContext, _ map[string]string) (*hook.Result, error) {
		r := &hook.Result{Metrics: []operation.MetricOperation{{Name: "m"}}}
		if hasPatch {
			r.KubernetesPatchBytes = []byte("patch")
		}
		if hasAdmission {
			r.AdmissionResponse = ar
		}
		if hasConversion {
			r.ConversionResponse = cr
		}
		if runFails {
			return r, errors.New("exit status 1")
		}
		return r, nil
	}
	parsed, applied := 0, 0
	var appliedOps []string
	ops := []sdkpkg.PatchCollectorOperation{objectpatch.VStatusPatch("keep", true), objectpatch.VStatusPatch("drop", false)}
	objectpatch.VParseOpsFn = func(b []byte) ([]sdkpkg.PatchCollectorOperation, error) {
		parsed++
		zz.Assert(string(b) == "patch", "patch_file_content_is_parsed")
		if patchInvalid {
			return nil, errors.New("invalid document")
		}
		return ops, nil
	}
	objectpatch.VExecOpsFn = func(l []sdkpkg.PatchCollectorOperation) error {
		applied++
		for _, o := range l {
			appliedOps = append(appliedOps, objectpatch.VOpName(o))
		}
		if applyFails {
			return errors.New("api error")
		}
		return nil
	}
	batches := 0
	e.hmstor.SendBatchFn = func(mops []operation.MetricOperation, labels map[string]string) error {
		batches++
		zz.Assert(len(mops) == 1 && labels["hook"] == "hookA", "metrics_sent_with_hook_label")
		if metricsRejected {
			return errors.New("bad metrics")
		}
		return nil
	}

	res := op.taskHandleHookRun(bt)

	failed := zz.Or(runFails, zz.Or(zz.And(hasPatch, zz.Or(patchInvalid, applyFails)), metricsRejected))
	zz.Assert(zz.Implies(zz.And(failed, !allowFailure), res.Status == "Fail"), "bad_exit_or_output_fails_the_execution")
	zz.Assert(zz.Implies(zz.And(failed, allowFailure), res.Status == "Success"), "allowed_failure_is_not_retried")
	zz.Assert(zz.Implies(zz.Not(failed), res.Status == "Success"), "clean_run_succeeds")
	if hasPatch {
		zz.Assert(parsed == 1, "patch_stream_parsed_once")
		if patchInvalid {
			zz.Assert(applied == 0, "invalid_patch_stream_applies_nothing")
		} else {
			zz.Assert(applied == 1, "valid_patch_stream_applied_once")
			if runFails {
				zz.Assert(len(appliedOps) == 1 && appliedOps[0] == "keep", "after_hook_error_only_marked_status_patches_run")
			} else {
				zz.Assert(len(appliedOps) == 2 && appliedOps[0] == "keep" && appliedOps[1] == "drop", "operations_applied_in_order")
			}
		}
	} else {
		zz.Assert(parsed == 0 && applied == 0, "no_patch_no_apply")
	}
	if !runFails && !(hasPatch && (patchInvalid || applyFails)) {
		zz.Assert(batches == 1, "metrics_applied_after_patches")
	}
	if runFails {
		zz.Assert(batches == 0, "no_metrics_after_failed_run")
	}
	// the webhook answer of an execution is recorded only when the whole execution succeeded:
	// a failed execution (whatever allowFailure says) must not answer "allowed" / "converted"
	gotAR := bt.GetProp("admissionResponse") == ar
	gotCR := bt.GetProp("conversionResponse") == cr
	zz.Assert(zz.Implies(zz.Not(failed), gotAR == hasAdmission), "admission_response_kept_for_the_webhook")
	zz.Assert(zz.Implies(zz.Not(failed), gotCR == hasConversion), "conversion_response_kept_for_the_webhook")
	zz.Assert(zz.Implies(failed, bt.GetProp("admissionResponse") == nil), "failed_execution_records_no_admission_response")
	zz.Assert(zz.Implies(failed, bt.GetProp("conversionResponse") == nil), "failed_execution_records_no_conversion_response")
	zz.Reach("end")
}
