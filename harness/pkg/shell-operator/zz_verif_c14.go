package shell_operator

// C14: admission webhooks fail closed and relay the hook's verdict.

import (
	"errors"
	"net/http"
	"net/url"
	"strconv"
	"strings"

	admv1 "k8s.io/api/admission/v1"
	regv1 "k8s.io/api/admissionregistration/v1"
	"k8s.io/apimachinery/pkg/types"

	"github.com/flant/shell-operator/pkg/hook"
	bctx "github.com/flant/shell-operator/pkg/hook/binding_context"
	"github.com/flant/shell-operator/pkg/hook/config"
	htypes "github.com/flant/shell-operator/pkg/hook/types"
	"github.com/flant/shell-operator/pkg/webhook/admission"
	zz "github.com/flant/shell-operator/pkg/zzverif"
	zzhttp "github.com/flant/shell-operator/pkg/zzverifhttp"
)

type vhAdmBinding struct {
	hook     string
	name     string
	mutating bool
	id       string
}

func VH_C14_admission() {
	e := vhNewEnv()
	admission.VNoServer = true
	wmgr := admission.NewWebhookManager(nil)
	wmgr.Settings = &admission.WebhookSettings{}
	e.op.AdmissionWebhookManager = wmgr

	nh := zz.Len("nhooks", 1, zz.Param("maxhooks", 2))
	var all []vhAdmBinding
	for hi := 0; hi < nh; hi++ {
		hname := "hook" + strconv.Itoa(hi)
		cfg := &config.HookConfig{Version: "v1"}
		nb := zz.Len("nbindings"+strconv.Itoa(hi), 1, zz.Param("maxbindings", 2))
		for bi := 0; bi < nb; bi++ {
			tag := strconv.Itoa(hi) + "_" + strconv.Itoa(bi)
			b := vhAdmBinding{hook: hname}
			b.name = zz.OneOf("name"+tag, "myHook", "my-hook", "policy.example.com", "other")
			b.mutating = zz.Bool("mutating" + tag)
			if b.mutating {
				mc := htypes.MutatingConfig{Webhook: &admission.MutatingWebhookConfig{MutatingWebhook: &regv1.MutatingWebhook{Name: b.name}}}
				mc.BindingName = b.name
				mc.Webhook.UpdateIds("", b.name)
				b.id = mc.Webhook.Metadata.WebhookId
				cfg.KubernetesMutating = append(cfg.KubernetesMutating, mc)
			} else {
				vc := htypes.ValidatingConfig{Webhook: &admission.ValidatingWebhookConfig{ValidatingWebhook: &regv1.ValidatingWebhook{Name: b.name}}}
				vc.BindingName = b.name
				vc.Webhook.UpdateIds("", b.name)
				b.id = vc.Webhook.Metadata.WebhookId
				cfg.KubernetesValidating = append(cfg.KubernetesValidating, vc)
			}
			all = append(all, b)
		}
		h := hook.VNewHook(hname, cfg, e.kmgr, e.smgr, wmgr, nil)
		e.hooks = append(e.hooks, h)
	}
	e.finish()
	op := e.op
	op.TaskQueues.NewNamedQueue("main", nil)
	zz.Assert(op.initValidatingWebhookManager() == nil, "webhook_manager_initialises")

	// the request
	confID := zz.OneOf("path_configuration", "hooks", "elsewhere")
	webID := zz.OneOf("path_webhook", "my-hook", "policy-example-com", "other", "unknown")
	uid := zz.OneOf("uid", "uid-1", "uid-2")
	review := admv1.AdmissionReview{Request: &admv1.AdmissionRequest{UID: types.UID(uid), Name: "obj"}}
	req := &http.Request{Method: "POST", URL: &url.URL{Path: "/" + confID + "/" + webID}, Body: zzhttp.JSONBody(review)}

	// the hook's behaviour
	outcome := zz.Len("hook_outcome", 0, 3) // 0 exit!=0, 1 no response written, 2 denies, 3 allows
	withPatch := zz.Bool("with_patch")
	// the patch a hook writes can be long (a JSON patch with many operations)
	patchText := "cGF0Y2g="
	if withPatch && zz.Bool("long_patch") {
		patchText = strings.Repeat("cGF0Y2g9", 200)
	}
	msg := zz.OneOf("message", "", "not allowed by policy")
	var ranHook, ranBinding []string
	hook.VRunFn = func(h *hook.Hook, bt htypes.BindingType, ctxs []bctx.BindingContext, _ map[string]string) (*hook.Result, error) {
		ranHook = append(ranHook, h.Name)
		for _, c := range ctxs {
			ranBinding = append(ranBinding, c.Binding)
			zz.Assert(c.AdmissionReview != nil && c.AdmissionReview.Request != nil && string(c.AdmissionReview.Request.UID) == uid, "hook_receives_the_review")
		}
		switch outcome {
		case 0:
			return &hook.Result{}, errors.New("exit status 1")
		case 1:
			return &hook.Result{}, nil
		}
		r := &admission.Response{Allowed: outcome == 3, Message: msg, Warnings: []string{"w1"}}
		if withPatch {
			r.Patch = []byte(patchText)
		}
		return &hook.Result{AdmissionResponse: r}, nil
	}

	sink := zzhttp.NewSink()
	admission.VServe(wmgr.Handler, sink, req)

	var out admv1.AdmissionReview
	ok := sink.Decode(&out)
	zz.Assert(ok && out.Response != nil, "review_is_answered")
	if !ok || out.Response == nil {
		return
	}
	resp := out.Response
	zz.Assert(string(resp.UID) == uid, "answer_echoes_request_uid")

	// which registrations own the requested path
	owners := 0
	var owner vhAdmBinding
	collide := false
	for i, b := range all {
		if zz.Concretize(vhC14Eq(b.id, webID)) == 1 && zz.Concretize(vhC14Eq(confID, "hooks")) == 1 {
			owners++
			owner = b
		}
		for j := 0; j < i; j++ {
			if zz.Concretize(vhC14Eq(all[j].id, b.id)) == 1 {
				collide = true
			}
		}
	}
	zz.Class("webhook_id_collision", collide)
	// a path identifies one registering (hook, binding)
	zz.Assert(!collide, "each_registered_path_belongs_to_one_binding")
	if owners == 0 {
		zz.Assert(!resp.Allowed, "unknown_path_is_denied")
		zz.Assert(len(ranHook) == 0, "no_hook_runs_for_unknown_path")
	} else {
		zz.Assert(len(ranHook) == 1, "exactly_one_hook_execution_per_review")
		if owners == 1 && len(ranHook) == 1 && len(ranBinding) == 1 {
			zz.Assert(ranHook[0] == owner.hook && ranBinding[0] == owner.name, "request_goes_to_the_registering_hook_and_binding")
		}
		if outcome == 3 {
			zz.Assert(resp.Allowed, "allowed_verdict_is_relayed")
		} else {
			zz.Assert(!resp.Allowed, "anything_but_a_valid_allow_is_a_denial")
		}
		if outcome >= 2 {
			zz.Assert(len(resp.Warnings) == 1 && resp.Warnings[0] == "w1", "warnings_are_relayed")
			if withPatch {
				zz.Assert(resp.PatchType != nil && *resp.PatchType == admv1.PatchTypeJSONPatch && string(resp.Patch) == patchText, "patch_is_relayed_as_json_patch")
			} else {
				zz.Assert(resp.PatchType == nil && len(resp.Patch) == 0, "no_patch_no_patch_type")
			}
		}
		if outcome == 2 {
			zz.Assert(resp.Result != nil && resp.Result.Message == msg, "denial_carries_the_hooks_message")
		}
	}
	if resp.Allowed {
		zz.Assert(owners >= 1 && outcome == 3, "allowed_only_after_a_valid_allow")
	}
	zz.Reach("end")
}

func vhC14Eq(a, b string) int {
	if a == b {
		return 1
	}
	return 0
}
