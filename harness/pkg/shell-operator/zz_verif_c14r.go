package shell_operator

// C14, through the HTTP router: a review posted to the path a binding registered
// reaches serveReviewRequest and is answered with an AdmissionReview, whatever
// the shape of the path (composite webhook ids contain '/'; empty segments are
// ignored by detectConfigurationAndWebhook); any other POST path is answered
// with a denial, never with a bare HTTP error that the API server would treat
// according to failurePolicy.
//
// Real code: NewWebhookHandler (chi router, the three middlewares),
// serveReviewRequest, handleReviewRequest, detectConfigurationAndWebhook, the
// operator's admission event handler, the bindings controller, UpdateIds /
// SafeURLString.  chi itself is interpreted, not modelled.

import (
	"net/http"
	"net/url"

	admv1 "k8s.io/api/admission/v1"
	regv1 "k8s.io/api/admissionregistration/v1"
	"k8s.io/apimachinery/pkg/types"

	"github.com/flant/shell-operator/pkg/hook"
	bctx "github.com/flant/shell-operator/pkg/hook/binding_context"
	"github.com/flant/shell-operator/pkg/hook/config"
	htypes "github.com/flant/shell-operator/pkg/hook/types"
	"github.com/flant/shell-operator/pkg/webhook/admission"
	zz "github.com/flant/shell-operator/pkg/zzverif"
	zzhttp "github.com/flant/shell-operator/pkg/zzverifhttp"
)

func VH_C14_routed() {
	e := vhNewEnv()
	admission.VNoServer = true
	wmgr := admission.NewWebhookManager(nil)
	wmgr.Settings = &admission.WebhookSettings{}
	e.op.AdmissionWebhookManager = wmgr

	// one hook, one binding; the name may make a composite webhook id
	name := zz.ConcretizeStr(zz.OneOf("binding_name", "pods", "policies/pods", "a/b/c"))
	mutating := zz.Bool("mutating")
	cfg := &config.HookConfig{Version: "v1"}
	id := ""
	if mutating {
		mc := htypes.MutatingConfig{Webhook: &admission.MutatingWebhookConfig{MutatingWebhook: &regv1.MutatingWebhook{Name: name}}}
		mc.BindingName = name
		mc.Webhook.UpdateIds("", name)
		id = mc.Webhook.Metadata.WebhookId
		cfg.KubernetesMutating = append(cfg.KubernetesMutating, mc)
	} else {
		vc := htypes.ValidatingConfig{Webhook: &admission.ValidatingWebhookConfig{ValidatingWebhook: &regv1.ValidatingWebhook{Name: name}}}
		vc.BindingName = name
		vc.Webhook.UpdateIds("", name)
		id = vc.Webhook.Metadata.WebhookId
		cfg.KubernetesValidating = append(cfg.KubernetesValidating, vc)
	}
	zz.Assert(id == name, "lower_case_names_with_slashes_are_their_own_id")
	e.hooks = append(e.hooks, hook.VNewHook("hook0", cfg, e.kmgr, e.smgr, wmgr, nil))
	e.finish()
	op := e.op
	op.TaskQueues.NewNamedQueue("main", nil)
	zz.Assert(op.initValidatingWebhookManager() == nil, "webhook_manager_initialises")

	// the request: the registered path in several spellings, or another path
	registered := "/hooks/" + id
	shape := zz.Len("path_shape", 0, 7)
	path := registered
	owned := true
	switch shape {
	case 1:
		path = registered + "/"
	case 2:
		path, owned = "/hooks", false
	case 3:
		path, owned = "/", false
	case 4:
		path, owned = registered+"/more", false
	case 5:
		path, owned = "/elsewhere/"+id, false
	case 6:
		path, owned = "/hooks/unknown", false
	case 7:
		path, owned = "/hooks/policies/unknown", false
	}
	uid := "uid-1"
	review := admv1.AdmissionReview{Request: &admv1.AdmissionRequest{UID: types.UID(uid), Name: "obj"}}
	// the request itself may be unusable: a review without a request, or a body that is not
	// announced as JSON - nothing is admitted then and no hook runs
	reqShape := zz.Len("request_shape", 0, 2)
	ctype := "application/json"
	switch reqShape {
	case 1:
		review.Request = nil
	case 2:
		ctype = "text/plain"
	}
	req := &http.Request{Method: "POST", URL: &url.URL{Path: path}, Body: zzhttp.JSONBody(review),
		Header: http.Header{"Content-Type": []string{ctype}}, ContentLength: 10}

	allow := zz.Len("hook_allows", 0, 1) == 1
	ran := 0
	hook.VRunFn = func(h *hook.Hook, bt htypes.BindingType, ctxs []bctx.BindingContext, _ map[string]string) (*hook.Result, error) {
		ran++
		return &hook.Result{AdmissionResponse: &admission.Response{Allowed: allow, Message: "m"}}, nil
	}

	routed := admission.NewWebhookHandler()
	routed.Handler = wmgr.Handler.Handler
	sink := zzhttp.NewSink()
	routed.Router.ServeHTTP(sink, req)

	var out admv1.AdmissionReview
	ok := sink.Decode(&out)
	if reqShape != 0 {
		zz.Assert(ran == 0, "no_hook_runs_for_an_unusable_request")
		zz.Assert(!ok || out.Response == nil || !out.Response.Allowed, "unusable_request_is_not_admitted")
		zz.Assert(sink.Status >= 400, "unusable_request_is_an_http_error")
		zz.Reach("end")
		return
	}
	zz.Assert(ok && out.Response != nil, "every_post_is_answered_with_a_review")
	if !ok || out.Response == nil {
		return
	}
	zz.Assert(string(out.Response.UID) == uid, "answer_echoes_request_uid")
	if owned {
		zz.Assert(ran == 1, "registered_path_reaches_its_hook")
		zz.Assert(out.Response.Allowed == allow, "verdict_is_relayed")
	} else {
		zz.Assert(ran == 0, "no_hook_runs_for_unknown_path")
		zz.Assert(!out.Response.Allowed, "unknown_path_is_denied")
	}
	zz.Reach("end")
}
