package shell_operator

// C15 (ii): the conversion chain is applied step by step through the hooks.

import (
	"errors"
	"net/http"
	"net/url"
	"strconv"

	apixv1 "k8s.io/apiextensions-apiserver/pkg/apis/apiextensions/v1"
	metav1 "k8s.io/apimachinery/pkg/apis/meta/v1"
	"k8s.io/apimachinery/pkg/runtime"
	"k8s.io/apimachinery/pkg/types"

	"github.com/flant/shell-operator/pkg/hook"
	bctx "github.com/flant/shell-operator/pkg/hook/binding_context"
	"github.com/flant/shell-operator/pkg/hook/config"
	htypes "github.com/flant/shell-operator/pkg/hook/types"
	"github.com/flant/shell-operator/pkg/webhook/conversion"
	zz "github.com/flant/shell-operator/pkg/zzverif"
	zzhttp "github.com/flant/shell-operator/pkg/zzverifhttp"
)

func vhConvCfg(binding string, rules ...conversion.Rule) *config.HookConfig {
	cc := htypes.ConversionConfig{Webhook: &conversion.WebhookConfig{CrdName: "crd", Rules: rules}}
	cc.BindingName = binding
	cc.Webhook.Metadata.LogLabels = map[string]string{}
	return &config.HookConfig{Version: "v1", KubernetesConversion: []htypes.ConversionConfig{cc}}
}

func VH_C15_conversion() {
	e := vhNewEnv()
	conversion.VNoServer, conversion.VPlainVersions = true, true
	cmgr := conversion.NewWebhookManager()
	cmgr.Settings = &conversion.WebhookSettings{}
	e.op.ConversionWebhookManager = cmgr
	// hookA converts v1->v2, hookB converts v2->v3 (a chain of two hooks)
	// a binding may declare several rules: hookA optionally also converts v0->v1 (never
	// needed by the requests below, and declared last)
	rulesA := []conversion.Rule{{FromVersion: "v1", ToVersion: "v2"}}
	if zz.Bool("hookA_declares_a_second_rule") {
		rulesA = append(rulesA, conversion.Rule{FromVersion: "v0", ToVersion: "v1"})
	}
	hA := hook.VNewHook("hookA", vhConvCfg("convA", rulesA...), e.kmgr, e.smgr, nil, cmgr)
	hB := hook.VNewHook("hookB", vhConvCfg("convB", conversion.Rule{FromVersion: "v2", ToVersion: "v3"}), e.kmgr, e.smgr, nil, cmgr)
	e.hooks = append(e.hooks, hA, hB)
	// optionally a third hook declares hookA's step under another spelling of the
	// versions (with the group): either declaration may serve the step, but a hook
	// is only ever run for a rule it declared itself
	shadow := zz.Bool("same_step_declared_with_group_by_another_hook")
	if shadow {
		hC := hook.VNewHook("hookC", vhConvCfg("convC", conversion.Rule{FromVersion: "g.io/v1", ToVersion: "g.io/v2"}), e.kmgr, e.smgr, nil, cmgr)
		e.hooks = append(e.hooks, hC)
	}
	declared := map[string]conversion.Rule{
		"hookA": {FromVersion: "v1", ToVersion: "v2"},
		"hookB": {FromVersion: "v2", ToVersion: "v3"},
		"hookC": {FromVersion: "g.io/v1", ToVersion: "g.io/v2"},
	}
	short := func(v string) string {
		for i := len(v) - 1; i >= 0; i-- {
			if v[i] == '/' {
				return v[i+1:]
			}
		}
		return v
	}
	e.finish()
	op := e.op
	op.TaskQueues.NewNamedQueue("main", nil)
	zz.Assert(op.initConversionWebhookManager() == nil, "conversion_manager_initialises")

	from := zz.ConcretizeStr(zz.OneOf("from", "v1", "v2"))
	to := zz.ConcretizeStr(zz.OneOf("to", "v2", "v3", "v9"))
	zz.Assume(from != to)
	nobj := zz.Len("nobjects", 1, 2)
	var objs []runtime.RawExtension
	for i := 0; i < nobj; i++ {
		objs = append(objs, conversion.VObject(from))
	}
	uid := zz.OneOf("uid", "uid-1", "uid-2")
	review := apixv1.ConversionReview{Request: &apixv1.ConversionRequest{UID: types.UID(uid), DesiredAPIVersion: to, Objects: objs}}
	req := &http.Request{Method: "POST", URL: &url.URL{Path: "/crd"}, Body: zzhttp.JSONBody(review)}

	// expected chain
	var chain []string
	switch {
	case from == "v1" && to == "v2":
		chain = []string{"hookA"}
	case from == "v1" && to == "v3":
		chain = []string{"hookA", "hookB"}
	case from == "v2" && to == "v3":
		chain = []string{"hookB"}
	}
	// per step outcome: 0 exit!=0, 1 failedMessage, 2 converts, 3 returns too few objects,
	// 4 failedMessage together with a full list of objects (still a failure)
	outcomes := make([]int, 2)
	for i := range outcomes {
		outcomes[i] = zz.Len("step_outcome"+strconv.Itoa(i), 0, 4)
	}
	var ran []string
	var inputs []string
	hook.VRunFn = func(h *hook.Hook, bt htypes.BindingType, ctxs []bctx.BindingContext, _ map[string]string) (*hook.Result, error) {
		step := len(ran)
		ran = append(ran, h.Name)
		zz.Assert(len(ctxs) == 1 && ctxs[0].ConversionReview != nil && ctxs[0].ConversionReview.Request != nil, "hook_receives_the_review")
		in := ""
		if len(ctxs) == 1 && ctxs[0].ConversionReview != nil {
			for _, o := range ctxs[0].ConversionReview.Request.Objects {
				in += short(conversion.VObjectVersion(o)) + ","
			}
			zz.Assert(ctxs[0].FromVersion != "" && ctxs[0].ToVersion != "", "context_names_the_rule")
			zz.Assert(ctxs[0].FromVersion == declared[h.Name].FromVersion && ctxs[0].ToVersion == declared[h.Name].ToVersion, "hook_runs_only_for_a_rule_it_declared")
		}
		inputs = append(inputs, in)
		out := outcomes[0]
		if step < len(outcomes) {
			out = outcomes[step]
		}
		switch out {
		case 0:
			return &hook.Result{}, errors.New("exit status 1")
		case 1:
			return &hook.Result{ConversionResponse: &conversion.Response{FailedMessage: "cannot convert: " + h.Name}}, nil
		}
		target := ctxs[0].ToVersion
		n := nobj
		if out == 3 {
			n = nobj - 1
		}
		var conv []runtime.RawExtension
		for i := 0; i < n; i++ {
			conv = append(conv, conversion.VObject(target))
		}
		if out == 4 {
			return &hook.Result{ConversionResponse: &conversion.Response{FailedMessage: "cannot convert: " + h.Name, ConvertedObjects: conv}}, nil
		}
		return &hook.Result{ConversionResponse: &conversion.Response{ConvertedObjects: conv}}, nil
	}

	sink := zzhttp.NewSink()
	conversion.VServe(cmgr.Handler, sink, req)
	var out apixv1.ConversionReview
	ok := sink.Decode(&out)
	zz.Assert(ok && out.Response != nil, "review_is_answered")
	if !ok || out.Response == nil {
		return
	}
	resp := out.Response
	zz.Assert(string(resp.UID) == uid, "answer_echoes_request_uid")
	success := resp.Result.Status == metav1.StatusSuccess

	if len(chain) == 0 {
		zz.Assert(!success && len(ran) == 0, "no_chain_no_conversion")
		zz.Reach("end")
		return
	}
	// hooks run in chain order until the first step that does not succeed
	firstBad := -1
	for i := range chain {
		if outcomes[i] != 2 && firstBad < 0 {
			firstBad = i
		}
	}
	wantRuns := len(chain)
	if firstBad >= 0 {
		wantRuns = firstBad + 1
	}
	sameStep := func(got, want string) bool {
		return got == want || (shadow && want == "hookA" && got == "hookC")
	}
	zz.Assert(len(ran) >= 1 && sameStep(ran[0], chain[0]), "first_step_runs_first")
	zz.Assert(len(ran) == wantRuns, "no_step_after_a_failed_step")
	for i := 0; i < len(ran) && i < len(chain); i++ {
		zz.Assert(sameStep(ran[i], chain[i]), "hooks_invoked_in_chain_order")
	}
	// each step receives the previous output
	if len(inputs) > 0 {
		want0 := ""
		for i := 0; i < nobj; i++ {
			want0 += from + ","
		}
		zz.Assert(inputs[0] == want0, "first_step_receives_the_request_objects")
	}
	if len(inputs) > 1 && outcomes[0] == 2 {
		want1 := ""
		for i := 0; i < nobj; i++ {
			want1 += "v2,"
		}
		zz.Assert(inputs[1] == want1, "next_step_receives_previous_output")
	}
	if firstBad < 0 {
		zz.Assert(success, "all_steps_succeeded_gives_success")
		zz.Assert(len(resp.ConvertedObjects) == nobj, "as_many_objects_as_requested")
		for _, o := range resp.ConvertedObjects {
			zz.Assert(short(conversion.VObjectVersion(o)) == to, "objects_have_the_desired_version")
		}
	} else {
		zz.Assert(!success, "a_failed_step_fails_the_conversion")
		if outcomes[firstBad] == 1 || outcomes[firstBad] == 4 {
			zz.Assert(resp.Result.Message == "cannot convert: "+ran[firstBad], "failure_carries_the_hooks_own_message")
		}
	}
	zz.Reach("end")
}
