package shell_operator

// C15, through the HTTP router: a ConversionReview posted to /<crd name> reaches
// serveReviewRequest and is answered with a ConversionReview (success only when
// the hook converted every object); a POST to any other path is answered with a
// failed ConversionReview, never with a bare HTTP error.
//
// Real code: conversion.NewWebhookHandler (chi router and middlewares),
// serveReviewRequest, handleReviewRequest, detectCrdName, the operator's
// conversion event handler, the conversion bindings controller.

import (
	"net/http"
	"net/url"

	apixv1 "k8s.io/apiextensions-apiserver/pkg/apis/apiextensions/v1"
	metav1 "k8s.io/apimachinery/pkg/apis/meta/v1"
	"k8s.io/apimachinery/pkg/runtime"
	"k8s.io/apimachinery/pkg/types"

	"github.com/flant/shell-operator/pkg/hook"
	bctx "github.com/flant/shell-operator/pkg/hook/binding_context"
	htypes "github.com/flant/shell-operator/pkg/hook/types"
	"github.com/flant/shell-operator/pkg/webhook/conversion"
	zz "github.com/flant/shell-operator/pkg/zzverif"
	zzhttp "github.com/flant/shell-operator/pkg/zzverifhttp"
)

func VH_C15_routed() {
	e := vhNewEnv()
	conversion.VNoServer, conversion.VPlainVersions = true, true
	cmgr := conversion.NewWebhookManager()
	cmgr.Settings = &conversion.WebhookSettings{}
	e.op.ConversionWebhookManager = cmgr
	hA := hook.VNewHook("hookA", vhConvCfg("convA", conversion.Rule{FromVersion: "v1", ToVersion: "v2"}), e.kmgr, e.smgr, nil, cmgr)
	e.hooks = append(e.hooks, hA)
	e.finish()
	op := e.op
	op.TaskQueues.NewNamedQueue("main", nil)
	zz.Assert(op.initConversionWebhookManager() == nil, "conversion_manager_initialises")

	shape := zz.Len("path_shape", 0, 4)
	path, owned := "/crd", true
	switch shape {
	case 1:
		path, owned = "/other", false
	case 2:
		path, owned = "/", false
	case 3:
		path, owned = "/crd/extra", false
	case 4:
		path, owned = "/other.example.com/v1", false
	}
	uid := "uid-1"
	review := apixv1.ConversionReview{Request: &apixv1.ConversionRequest{UID: types.UID(uid), DesiredAPIVersion: "v2", Objects: []runtime.RawExtension{conversion.VObject("v1")}}}
	// the request itself may be unusable: a review without a request, or a body that is not
	// announced as JSON - no hook runs and no successful conversion is reported
	reqShape := zz.Len("request_shape", 0, 2)
	ctype := "application/json"
	switch reqShape {
	case 1:
		review.Request = nil
	case 2:
		ctype = "text/plain"
	}
	req := &http.Request{Method: "POST", URL: &url.URL{Path: path}, Body: zzhttp.JSONBody(review),
		Header: http.Header{"Content-Type": []string{ctype}}, ContentLength: 10}

	converts := zz.Len("hook_converts", 0, 1) == 1
	ran := 0
	hook.VRunFn = func(h *hook.Hook, bt htypes.BindingType, ctxs []bctx.BindingContext, _ map[string]string) (*hook.Result, error) {
		ran++
		if !converts {
			return &hook.Result{ConversionResponse: &conversion.Response{FailedMessage: "no"}}, nil
		}
		return &hook.Result{ConversionResponse: &conversion.Response{ConvertedObjects: []runtime.RawExtension{conversion.VObject("v2")}}}, nil
	}

	routed := conversion.NewWebhookHandler()
	routed.Manager = cmgr
	sink := zzhttp.NewSink()
	routed.Router.ServeHTTP(sink, req)

	var out apixv1.ConversionReview
	ok := sink.Decode(&out)
	if reqShape != 0 {
		zz.Assert(ran == 0, "no_hook_runs_for_an_unusable_request")
		zz.Assert(!ok || out.Response == nil || out.Response.Result.Status != metav1.StatusSuccess, "unusable_request_is_not_a_success")
		zz.Assert(sink.Status >= 400, "unusable_request_is_an_http_error")
		zz.Reach("end")
		return
	}
	zz.Assert(ok && out.Response != nil, "every_post_is_answered_with_a_review")
	if !ok || out.Response == nil {
		return
	}
	zz.Assert(string(out.Response.UID) == uid, "answer_echoes_request_uid")
	success := out.Response.Result.Status == metav1.StatusSuccess
	if owned {
		zz.Assert(ran == 1, "crd_path_reaches_its_hook")
		zz.Assert(success == converts, "verdict_is_relayed")
	} else {
		zz.Assert(ran == 0, "no_hook_runs_for_unknown_crd")
		zz.Assert(!success, "unknown_crd_fails_the_conversion")
	}
	zz.Reach("end")
}
