package shell_operator

// C17 (operator part): Shutdown stops schedules, pauses cluster events, stops
// every queue and returns once the workers have terminated.

import (
	"github.com/flant/shell-operator/pkg/hook/config"
	"github.com/flant/shell-operator/pkg/task"
	"github.com/flant/shell-operator/pkg/task/queue"
	zz "github.com/flant/shell-operator/pkg/zzverif"
)

func VH_C17_shutdown() {
	e := vhNewEnv()
	e.addHook("hookA", &config.HookConfig{Version: "v1"})
	e.finish()
	op := e.op
	zz.Ticks(zz.Param("ticks", 3))
	handled := 0
	nq := zz.Len("queues", 1, 2)
	names := []string{"main", "q1"}
	for i := 0; i < nq; i++ {
		op.TaskQueues.NewNamedQueue(names[i], func(t task.Task) queue.TaskResult {
			handled++
			zz.Yield()
			return queue.TaskResult{Status: queue.Success}
		})
		if zz.Bool("task_in_" + names[i]) {
			op.TaskQueues.GetByName(names[i]).AddLast(&task.BaseTask{Id: "t-" + names[i]})
		}
		op.TaskQueues.GetByName(names[i]).Start()
	}
	op.Shutdown()
	zz.Assert(e.smgr.Stopped, "schedules_stopped_on_shutdown")
	zz.Assert(e.kmgr.Paused, "cluster_events_paused_on_shutdown")
	after := handled
	// Shutdown returned: every worker has terminated (or the wait timed out: bounded timers)
	stopped := true
	for i := 0; i < nq; i++ {
		if op.TaskQueues.GetByName(names[i]).Status != "stop" {
			stopped = false
		}
	}
	// Shutdown returns when every worker has stopped - or when its own time-out fired
	zz.Assert(stopped || zz.TimeoutFired(), "shutdown_waits_for_every_worker_or_its_timeout")
	zz.Class("wait_timed_out", !stopped)
	if stopped {
		zz.Yield()
		zz.Assert(handled == after, "no_task_starts_after_shutdown_returned")
		// a queue created after the shutdown request (the operator still starting its hook
		// queues when the signal arrives) is born stopped: it never runs a task either
		if zz.Bool("queue_created_after_shutdown") {
			op.TaskQueues.NewNamedQueue("late", func(t task.Task) queue.TaskResult {
				handled++
				return queue.TaskResult{Status: queue.Success}
			})
			late := op.TaskQueues.GetByName("late")
			late.AddLast(&task.BaseTask{Id: "t-late"})
			late.Start()
			zz.WaitUntil(func() bool { return late.Status == "stop" || handled > after })
			zz.Assert(handled == after, "queue_created_after_shutdown_runs_nothing")
			zz.Assert(late.Length() == 1, "queue_created_after_shutdown_keeps_its_task")
		}
	}
	zz.Reach("end")
}
