package shell_operator

// C17 (operator part, hook queues): the queues the operator creates itself for
// bindings that name a queue (initAndStartHookQueues) are stopped by Shutdown
// like every other queue, without sitting out the stop time-out.

import (
	"context"

	"github.com/flant/shell-operator/pkg/hook/config"
	htypes "github.com/flant/shell-operator/pkg/hook/types"
	smtypes "github.com/flant/shell-operator/pkg/schedule_manager/types"
	zz "github.com/flant/shell-operator/pkg/zzverif"
)

func VH_C17_hook_queue() {
	e := vhNewEnv()
	cfg := &config.HookConfig{Version: "v1"}
	if zz.Bool("queue_named_by_a_schedule_binding") {
		sc := htypes.ScheduleConfig{ScheduleEntry: smtypes.ScheduleEntry{Crontab: "* * * * *", Id: "s0"}, Queue: "hook-queue"}
		sc.BindingName = "sched"
		cfg.Schedules = append(cfg.Schedules, sc)
	} else {
		kc := htypes.OnKubernetesEventConfig{Queue: "hook-queue"}
		kc.BindingName = "kube"
		cfg.OnKubernetesEvents = append(cfg.OnKubernetesEvents, kc)
	}
	e.addHook("hookA", cfg)
	e.finish()
	op := e.op
	op.ctx, op.cancel = context.WithCancel(context.Background())
	zz.Ticks(zz.Param("ticks", 3))
	op.initAndStartHookQueues()
	q := op.TaskQueues.GetByName("hook-queue")
	zz.Assert(q != nil, "hook_queue_is_created")
	if q == nil {
		return
	}
	op.Shutdown()
	// the queue is empty, its worker only waits for a task: it terminates at once
	zz.Assert(q.Status == "stop" || zz.TimeoutFired(), "shutdown_waits_for_every_worker_or_its_timeout")
	zz.Assert(!zz.TimeoutFired(), "shutdown_does_not_sit_out_its_timeout_when_no_handler_runs")
	zz.Assert(q.Status == "stop", "hook_queue_is_stopped_by_shutdown")
	zz.Reach("end")
}
