package shell_operator

// C18 (glue; the token bucket of golang.org/x/time/rate is trusted): every hook
// gets a limiter built from exactly its settings, and every execution waits
// exactly once on its own hook's limiter first.

import (
	"errors"
	"time"

	"golang.org/x/time/rate"

	"github.com/flant/shell-operator/pkg/hook"
	bctx "github.com/flant/shell-operator/pkg/hook/binding_context"
	"github.com/flant/shell-operator/pkg/hook/config"
	. "github.com/flant/shell-operator/pkg/hook/task_metadata"
	htypes "github.com/flant/shell-operator/pkg/hook/types"
	kemtypes "github.com/flant/shell-operator/pkg/kube_events_manager/types"
	"github.com/flant/shell-operator/pkg/task"
	zz "github.com/flant/shell-operator/pkg/zzverif"
)

var vhIntervals = []time.Duration{0, 500 * time.Millisecond, time.Second, 3 * time.Second}

// VH_C18_create: the limiter is built from exactly the hook's settings, whatever
// bindings the hook declares.
func VH_C18_create() {
	// (a) the limiter is built from exactly the hook's settings
	cfg := &config.HookConfig{Version: "v1"}
	hasSettings := zz.Bool("has_settings")
	ii := zz.Len("interval", 0, len(vhIntervals)-1)
	burst := zz.IntRange("burst", 0, 5)
	if hasSettings {
		cfg.Settings = &htypes.Settings{ExecutionMinInterval: vhIntervals[ii], ExecutionBurst: burst}
	}
	// the limiter depends on the settings only, not on which and how many bindings the hook has
	for i, nk := 0, zz.Len("kubernetes_bindings", 0, 3); i < nk; i++ {
		cfg.OnKubernetesEvents = append(cfg.OnKubernetesEvents, htypes.OnKubernetesEventConfig{})
	}
	for i, ns := 0, zz.Len("schedule_bindings", 0, 2); i < ns; i++ {
		cfg.Schedules = append(cfg.Schedules, htypes.ScheduleConfig{})
	}
	if zz.Bool("on_startup_binding") {
		cfg.OnStartup = &htypes.OnStartupConfig{}
	}
	for i, nv := 0, zz.Len("validating_bindings", 0, 2); i < nv; i++ {
		cfg.KubernetesValidating = append(cfg.KubernetesValidating, htypes.ValidatingConfig{})
	}
	lim := hook.CreateRateLimiter(cfg)
	if !hasSettings {
		zz.Assert(lim.Limit() == rate.Inf && lim.Burst() == 1, "no_settings_no_throttling")
	} else {
		if vhIntervals[ii] == 0 {
			zz.Assert(lim.Limit() == rate.Inf, "zero_interval_means_no_limit")
		} else {
			zz.Assert(lim.Limit() == rate.Every(vhIntervals[ii]), "limit_is_one_per_min_interval")
			zz.Assert(float64(lim.Limit())*vhIntervals[ii].Seconds() == 1, "limit_is_one_per_min_interval")
		}
		zz.Assert(zz.Implies(burst != 0, lim.Burst() == burst), "burst_is_execution_burst")
		zz.Assert(zz.Implies(burst == 0, lim.Burst() == 1), "burst_defaults_to_one")
	}
	zz.Reach("end")
}

func VH_C18_limiter() {
	// (b) each execution waits once on its own hook's limiter
	e := vhNewEnv()
	hA := e.addHook("hookA", &config.HookConfig{Version: "v1"})
	hB := e.addHook("hookB", &config.HookConfig{Version: "v1"})
	e.finish()
	zz.Assert(hA.RateLimiter != nil && hB.RateLimiter != nil && hA.RateLimiter != hB.RateLimiter, "each_hook_has_its_own_limiter")
	op := e.op
	op.TaskQueues.NewNamedQueue("main", nil)
	name := zz.ConcretizeStr(zz.OneOf("task_hook", "hookA", "hookB"))
	// the shape of the task: every binding kind, Synchronization with and without
	// a group, executeHookOnSynchronization on and off
	btype := htypes.BindingType(zz.ConcretizeStr(zz.OneOf("btype", string(htypes.Schedule), string(htypes.OnKubernetesEvent), string(htypes.OnStartup), string(htypes.KubernetesValidating), string(htypes.KubernetesConversion))))
	bc := bctx.BindingContext{Binding: "b"}
	bc.Metadata.BindingType = btype
	meta := HookMetadata{HookName: name, Binding: "b", BindingType: btype, ExecuteOnSynchronization: true}
	if btype == htypes.OnKubernetesEvent {
		if zz.Bool("is_synchronization") {
			bc.Type = kemtypes.TypeSynchronization
			meta.ExecuteOnSynchronization = zz.Bool("execute_on_synchronization")
		} else {
			bc.Type = kemtypes.TypeEvent
		}
		if zz.Bool("has_group") {
			meta.Group = "g"
			bc.Metadata.Group = "g"
		}
	}
	meta.BindingContext = []bctx.BindingContext{bc}
	bt := task.NewTask(HookRun).WithQueueName("main").WithMetadata(meta)
	op.TaskQueues.GetMain().AddLast(bt)
	// a second task of the same hook behind it, so that the combining path has work to do
	if zz.Bool("second_task") {
		bc2 := bc
		meta2 := meta
		meta2.BindingContext = []bctx.BindingContext{bc2}
		op.TaskQueues.GetMain().AddLast(task.NewTask(HookRun).WithQueueName("main").WithMetadata(meta2))
	}
	mustRun := !(btype == htypes.OnKubernetesEvent && bc.Type == kemtypes.TypeSynchronization && !meta.ExecuteOnSynchronization)
	waitFails := zz.Bool("wait_cancelled")
	var log []string
	hook.VRateWaitFn = func(h *hook.Hook) error {
		log = append(log, "wait:"+h.Name)
		if waitFails {
			return errors.New("context canceled")
		}
		return nil
	}
	hook.VRunFn = func(h *hook.Hook, _ htypes.BindingType, ctxs []bctx.BindingContext, _ map[string]string) (*hook.Result, error) {
		log = append(log, "run:"+h.Name)
		return &hook.Result{}, nil
	}
	res := op.taskHandleHookRun(bt)
	if waitFails {
		zz.Assert(len(log) == 1 && log[0] == "wait:"+name, "cancelled_wait_runs_nothing")
		zz.Assert(res.Status == "Repeat", "cancelled_wait_repeats_the_task")
	} else {
		if mustRun {
			zz.Assert(len(log) == 2 && log[0] == "wait:"+name && log[1] == "run:"+name, "execution_waits_once_on_its_own_limiter_first")
		} else {
			zz.Assert(len(log) <= 1 && (len(log) == 0 || log[0] == "wait:"+name), "skipped_synchronization_runs_nothing")
		}
		zz.Assert(res.Status == "Success", "execution_proceeds_after_wait")
	}
	zz.Reach("end")
}

// VH_C18_settings: from the settings as written in the hook's configuration to
// the limiter: CheckAndConvertSettings -> CreateRateLimiter gives exactly one
// token per executionMinInterval (as written, sub-second and fractional values
// included) and a bucket of executionBurst.
func VH_C18_settings() {
	texts := []string{"3s", "500ms", "1500ms", "1m30s500ms", "0.9s"}
	nanos := []time.Duration{3 * time.Second, 500 * time.Millisecond, 1500 * time.Millisecond, 90*time.Second + 500*time.Millisecond, 900 * time.Millisecond}
	ii := zz.Len("interval", 0, len(texts)-1)
	bi := zz.Len("burst", 0, 2)
	bursts := []string{"1", "2", "5"}
	st, err := (&config.HookConfigV1{}).CheckAndConvertSettings(&config.SettingsV1{ExecutionMinInterval: texts[ii], ExecutionBurst: bursts[bi]})
	zz.Assert(err == nil && st != nil, "settings_load")
	if err != nil || st == nil {
		return
	}
	lim := hook.CreateRateLimiter(&config.HookConfig{Version: "v1", Settings: st})
	zz.Assert(lim.Limit() == rate.Every(nanos[ii]), "limit_is_one_per_configured_interval")
	zz.Assert(lim.Burst() == []int{1, 2, 5}[bi], "burst_is_configured_burst")
	zz.Reach("end")
}
