package shell_operator

// Shared harness scaffolding: an operator whose hook processes, metric
// storages and kube/schedule managers are harness fakes; the operator code
// itself (task handlers, combining, event handlers) is the real one.

import (
	"context"
	"github.com/deckhouse/deckhouse/pkg/log"

	"github.com/flant/shell-operator/pkg/hook"
	"github.com/flant/shell-operator/pkg/hook/config"
	kubeeventsmanager "github.com/flant/shell-operator/pkg/kube_events_manager"
	"github.com/flant/shell-operator/pkg/metric"
	schedulemanager "github.com/flant/shell-operator/pkg/schedule_manager"
	"github.com/flant/shell-operator/pkg/task/queue"
	zz "github.com/flant/shell-operator/pkg/zzverif"
)

type vhEnv struct {
	op     *ShellOperator
	kmgr   *kubeeventsmanager.VFakeManager
	mstor  *metric.VFakeStorage
	hmstor *metric.VFakeStorage
	hooks  []*hook.Hook
	smgr   *schedulemanager.VFakeScheduleManager
}

func vhNewEnv() *vhEnv {
	zz.Setenv("QUEUE_ACTIONS_METRICS", "no")
	e := &vhEnv{kmgr: kubeeventsmanager.VNewFakeManager(), mstor: &metric.VFakeStorage{}, hmstor: &metric.VFakeStorage{}}
	e.op = &ShellOperator{logger: log.NewNop(), MetricStorage: e.mstor, HookMetricStorage: e.hmstor}
	e.op.TaskQueues = queue.NewTaskQueueSet()
	e.op.TaskQueues.WithContext(context.Background())
	e.op.KubeEventsManager = e.kmgr
	e.smgr = schedulemanager.VNewFakeScheduleManager()
	e.op.ScheduleManager = e.smgr
	hook.VRateWaitFn = func(h *hook.Hook) error { return nil }
	return e
}

func (e *vhEnv) addHook(name string, cfg *config.HookConfig) *hook.Hook {
	h := hook.VNewHook(name, cfg, e.kmgr, e.op.ScheduleManager, nil, nil)
	e.hooks = append(e.hooks, h)
	return h
}

func (e *vhEnv) finish() {
	e.op.HookManager = hook.VNewManager(e.kmgr, e.op.ScheduleManager, nil, nil, e.hooks...)
}
