package queue

// C05 (a): one queue operation from an arbitrary valid pre-state, against a
// list model.  Inductive: the pre-state is any slice of non-nil tasks with
// arbitrary (symbolic, possibly duplicated) ids and arbitrary spare capacity.

import (
	"strconv"

	"github.com/flant/shell-operator/pkg/task"
	zz "github.com/flant/shell-operator/pkg/zzverif"
)

func vhC05Pre(maxn int) (*TaskQueue, []task.Task, []string) {
	zz.Setenv("QUEUE_ACTIONS_METRICS", "no")
	n := zz.Len("n", 0, maxn)
	q := NewTasksQueue()
	ids := make([]string, n)
	tasks := make([]task.Task, n)
	for i := 0; i < n; i++ {
		ids[i] = zz.StrIn("id"+strconv.Itoa(i), 2, "ab")
		tasks[i] = &task.BaseTask{Id: ids[i]}
	}
	// representation: exact fit, spare capacity, or a window into a larger array
	switch zz.Len("layout", 0, 2) {
	case 0:
		q.items = append(q.items, tasks...)
	case 1:
		q.items = make([]task.Task, n, n+2)
		copy(q.items, tasks)
	case 2:
		big := make([]task.Task, n+3)
		copy(big[1:], tasks)
		q.items = big[1 : 1+n]
	}
	return q, tasks, ids
}

func vhSame(a task.Task, b task.Task) bool { return a == b }

// vhC05Check compares the queue with the expected list.
func vhC05Check(q *TaskQueue, want []task.Task) {
	zz.Assert(q.Length() == len(want), "length_matches_model")
	zz.Assert(len(q.items) == len(want), "items_len_matches_model")
	for i := 0; i < len(q.items); i++ {
		zz.Assert(q.items[i] != nil, "no_nil_slot")
	}
	if len(q.items) == len(want) {
		for i := range want {
			zz.Assert(vhSame(q.items[i], want[i]), "same_tasks_same_order")
		}
	}
	if len(want) > 0 {
		zz.Assert(vhSame(q.GetFirst(), want[0]), "getfirst_is_head")
		zz.Assert(vhSame(q.GetLast(), want[len(want)-1]), "getlast_is_tail")
	} else {
		zz.Assert(q.GetFirst() == nil && q.GetLast() == nil && q.IsEmpty(), "empty_queue_reports_empty")
	}
}

func vhIndexOf(ids []string, id string) int {
	for i := range ids {
		if ids[i] == id {
			return i
		}
	}
	return -1
}

func vhInsert(l []task.Task, at int, t task.Task) []task.Task {
	out := make([]task.Task, 0, len(l)+1)
	out = append(out, l[:at]...)
	out = append(out, t)
	out = append(out, l[at:]...)
	return out
}

func vhDelete(l []task.Task, at int) []task.Task {
	out := make([]task.Task, 0, len(l))
	out = append(out, l[:at]...)
	out = append(out, l[at+1:]...)
	return out
}

// vhLooseInsert checks the weak contract for an insertion relative to an id
// that is not queued: no nil slot, length = number of tasks, old elements keep
// their order, nothing duplicated or invented (no-op or one insertion of nt).
func vhLooseInsert(q *TaskQueue, old []task.Task, nt task.Task) {
	zz.Assert(q.Length() == len(q.items), "length_matches_model")
	for i := 0; i < len(q.items); i++ {
		zz.Assert(q.items[i] != nil, "no_nil_slot")
	}
	zz.Assert(len(q.items) == len(old) || len(q.items) == len(old)+1, "absent_id_noop_or_single_insert")
	j := 0
	extra := 0
	for i := 0; i < len(q.items); i++ {
		if j < len(old) && vhSame(q.items[i], old[j]) {
			j++
		} else if vhSame(q.items[i], nt) {
			extra++
		} else {
			zz.Assert(false, "nothing_invented")
		}
	}
	zz.Assert(j == len(old), "old_tasks_kept_in_order")
	zz.Assert(extra <= 1, "nothing_duplicated")
}

func VH_C05_ops() {
	q, tasks, ids := vhC05Pre(zz.Param("maxn", 3))
	nt := &task.BaseTask{Id: zz.StrIn("newid", 2, "ab")}
	arg := zz.StrIn("arg", 2, "ab")
	op := zz.Len("op", 0, 10)
	pos := vhIndexOf(ids, arg)
	zz.Class("absent_id", pos < 0)
	switch op {
	case 0:
		q.AddFirst(nt)
		vhC05Check(q, vhInsert(tasks, 0, nt))
	case 1:
		q.AddLast(nt)
		vhC05Check(q, vhInsert(tasks, len(tasks), nt))
	case 2:
		q.AddAfter(arg, nt)
		if pos >= 0 {
			vhC05Check(q, vhInsert(tasks, pos+1, nt))
		} else {
			vhLooseInsert(q, tasks, nt)
		}
	case 3:
		q.AddBefore(arg, nt)
		if pos >= 0 {
			vhC05Check(q, vhInsert(tasks, pos, nt))
		} else {
			vhLooseInsert(q, tasks, nt)
		}
	case 4:
		r := q.Remove(arg)
		if pos >= 0 {
			zz.Assert(vhSame(r, tasks[pos]), "remove_returns_first_match")
			vhC05Check(q, vhDelete(tasks, pos))
		} else {
			zz.Assert(r == nil, "remove_absent_returns_nil")
			vhC05Check(q, tasks)
		}
	case 5:
		r := q.RemoveFirst()
		if len(tasks) > 0 {
			zz.Assert(vhSame(r, tasks[0]), "removefirst_returns_head")
			vhC05Check(q, vhDelete(tasks, 0))
		} else {
			zz.Assert(r == nil, "removefirst_empty_nil")
			vhC05Check(q, tasks)
		}
	case 6:
		r := q.RemoveLast()
		if len(tasks) > 0 {
			zz.Assert(vhSame(r, tasks[len(tasks)-1]), "removelast_returns_tail")
			vhC05Check(q, vhDelete(tasks, len(tasks)-1))
		} else {
			zz.Assert(r == nil, "removelast_empty_nil")
			vhC05Check(q, tasks)
		}
	case 7:
		// Filter with an arbitrary predicate table
		keep := make([]bool, len(tasks))
		var want []task.Task
		for i := range tasks {
			keep[i] = zz.Bool("keep" + strconv.Itoa(i))
		}
		calls := 0
		q.Filter(func(t task.Task) bool {
			calls++
			for i := range tasks {
				if vhSame(tasks[i], t) {
					return keep[i]
				}
			}
			return false
		})
		for i := range tasks {
			if keep[i] {
				want = append(want, tasks[i])
			}
		}
		zz.Assert(calls == len(tasks), "filter_visits_each_once")
		vhC05Check(q, want)
	case 8:
		r := q.Get(arg)
		if pos >= 0 {
			zz.Assert(vhSame(r, tasks[pos]), "get_returns_first_match")
		} else {
			zz.Assert(r == nil, "get_absent_nil")
		}
		vhC05Check(q, tasks)
	case 9:
		var seen []task.Task
		q.Iterate(func(t task.Task) { seen = append(seen, t) })
		zz.Assert(len(seen) == len(tasks), "iterate_visits_all")
		if len(seen) == len(tasks) {
			for i := range tasks {
				zz.Assert(vhSame(seen[i], tasks[i]), "iterate_in_order")
			}
		}
		vhC05Check(q, tasks)
	case 10:
		// two operations in a row must not corrupt through shared backing arrays
		q.AddLast(nt)
		nt2 := &task.BaseTask{Id: "zz"}
		q.AddFirst(nt2)
		r := q.Remove(arg)
		want := vhInsert(vhInsert(tasks, len(tasks), nt), 0, nt2)
		wids := append(append([]string{"zz"}, ids...), nt.Id)
		p2 := vhIndexOf(wids, arg)
		if p2 >= 0 {
			zz.Assert(vhSame(r, want[p2]), "remove_returns_first_match")
			want = vhDelete(want, p2)
		} else {
			zz.Assert(r == nil, "remove_absent_returns_nil")
		}
		vhC05Check(q, want)
	}
	zz.Reach("end")
}

// VItems exposes the queue's items without locking (exporter for harness
// predicates evaluated by the scheduler).
func (q *TaskQueue) VItems() []task.Task { return q.items }

// VNoWorkers makes TaskQueue.Start record the start instead of spawning the
// worker (for harnesses that only look at which queues exist and are started).
var VNoWorkers bool
var VStarted []string

func vNoWorkers() bool { return VNoWorkers }

//verif:stub (*$R/pkg/task/queue.TaskQueue).Start if vNoWorkers
func vStartStub(q *TaskQueue) { VStarted = append(VStarted, q.Name) }
