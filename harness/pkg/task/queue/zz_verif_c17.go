package queue

// C17 / C03 / C05(b) / C04(iii): the queue worker under all schedules of
// worker, producers and a stopper (thread model).

import (
	"context"
	"strconv"
	"time"

	"github.com/flant/shell-operator/pkg/task"
	"github.com/flant/shell-operator/pkg/utils/exponential_backoff"
	zz "github.com/flant/shell-operator/pkg/zzverif"
)

// VH_C17_stop: shutdown requested at every point of the worker loop.
func VH_C17_stop() {
	zz.Setenv("QUEUE_ACTIONS_METRICS", "no")
	zz.Ticks(zz.Param("ticks", 2))
	q := NewTasksQueue()
	q.WithContext(context.Background())
	n := zz.Len("ntasks", 0, zz.Param("maxtasks", 2))
	for i := 0; i < n; i++ {
		q.AddLast(&task.BaseTask{Id: "t" + strconv.Itoa(i)})
	}
	stopRequested := false
	startedAfterStop := 0
	startedAfterSeenStop := 0
	running := 0
	handled := 0
	calls := 0
	q.WithHandler(func(t task.Task) TaskResult {
		if stopRequested {
			startedAfterStop++
			// "already picked" means: nothing but the hand-over lies between the worker's last
			// look at the cancellation and this call - it did not see the cancellation, and it
			// did not sleep or wait for a timer in between
			if zz.LastDoneCheckSawClosed() || zz.SleptSinceLastDoneCheck() {
				startedAfterSeenStop++
			}
		}
		running++
		zz.Assert(running == 1, "one_handler_at_a_time")
		zz.Yield()
		running--
		calls++
		// the first results may ask for a retry (Repeat, Fail): the retry delay is one of
		// the places where the shutdown request can arrive
		if calls <= 1 {
			switch zz.Len("first_result", 0, 2) {
			case 1:
				return TaskResult{Status: Repeat}
			case 2:
				return TaskResult{Status: Fail}
			}
		}
		handled++
		return TaskResult{Status: Success}
	})
	q.Start()
	late := zz.Len("late_tasks", 0, zz.Param("maxlate", 1))
	if late > 0 {
		zz.Go("producer", func() {
			for i := 0; i < late; i++ {
				q.AddLast(&task.BaseTask{Id: "late" + strconv.Itoa(i)})
			}
		})
	}
	zz.Go("stopper", func() {
		stopRequested = true
		q.Stop()
	})
	zz.WaitUntil(func() bool { return q.Status == "stop" })
	zz.Assert(stopRequested, "worker_stops_only_on_request")
	zz.Assert(startedAfterStop <= 1, "at_most_one_task_starts_after_shutdown_request")
	zz.Assert(startedAfterSeenStop == 0, "no_task_starts_after_the_worker_saw_the_cancellation_or_waited_without_looking")
	zz.Assert(handled <= n+late, "no_task_handled_twice")
	zz.Reach("end")
}

// VH_C05_results: the worker applies handler results (Success/Keep/Fail/Repeat
// with head/after/tail insertions) as a list would; the task handed to the
// handler is always the head; a failed task is retried first with a delay not
// shorter than the initial delay (C03, C04 iii, C05 b).
func VH_C05_results() {
	zz.Setenv("QUEUE_ACTIONS_METRICS", "no")
	zz.Ticks(zz.Param("ticks", 3))
	q := NewTasksQueue()
	q.WithContext(context.Background())
	n := zz.Len("ntasks", 1, zz.Param("maxtasks", 2))
	var model []task.Task
	for i := 0; i < n; i++ {
		t := &task.BaseTask{Id: "t" + strconv.Itoa(i)}
		q.AddLast(t)
		model = append(model, t)
	}
	maxCalls := zz.Param("calls", 2)
	calls := 0
	running := 0
	fresh := 0
	var lastDelay int64 = -1
	newTasks := func(tag string) []task.Task {
		var out []task.Task
		k := zz.Len(tag, 0, 1)
		for i := 0; i < k; i++ {
			fresh++
			out = append(out, &task.BaseTask{Id: "n" + strconv.Itoa(fresh)})
		}
		return out
	}
	// when did a task fail last, and which back-off delay was computed for that failure
	failedAt := map[task.Task]time.Time{}
	backoffOf := map[task.Task]time.Duration{}
	var lastFailed task.Task
	q.ExponentialBackoffFn = func(failureCount int) (d time.Duration) {
		d = exponential_backoff.CalculateDelay(DefaultInitialDelayOnFailedTask, failureCount)
		lastDelay = int64(d)
		if lastFailed != nil {
			backoffOf[lastFailed] = d
		}
		return d
	}
	prevFailed := false
	var prevTask task.Task
	prevFailures := 0
	// a concurrent producer that puts one task in front of the queue at an arbitrary
	// moment (during a handler, during a back-off or repeat delay, ...).  The list
	// model is updated when AddFirst has returned, or earlier when the worker is
	// seen to have picked the new task already (linearization inside AddFirst).
	var pending task.Task
	committed := false
	adderDone := true
	withAdder := zz.Param("adder", 1) == 1 && zz.Bool("concurrent_add_first")
	ticksAtCommit := -1
	// The result a handler returned is applied by the worker later, under the queue
	// lock; until the harness can tell that this has happened the result is "in flight".
	type vhResult struct {
		t          task.Task
		keep       bool
		hd, af, tl []task.Task
	}
	var inflight *vhResult
	apply := func(r *vhResult, m []task.Task) []task.Task {
		pos := -1
		for i := range m {
			if m[i] == r.t {
				pos = i
			}
		}
		var m2 []task.Task
		m2 = append(m2, r.hd...)
		if pos < 0 {
			m2 = append(m2, m...)
			m2 = append(m2, r.tl...)
			return m2
		}
		m2 = append(m2, m[:pos]...)
		if r.keep {
			m2 = append(m2, r.t)
		}
		m2 = append(m2, r.af...)
		m2 = append(m2, m[pos+1:]...)
		m2 = append(m2, r.tl...)
		return m2
	}
	same := func(a, b []task.Task) bool {
		if len(a) != len(b) {
			return false
		}
		for i := range a {
			if a[i] != b[i] {
				return false
			}
		}
		return true
	}
	flush := func() {
		if inflight != nil {
			model = apply(inflight, model)
			inflight = nil
		}
	}
	// commit: the producer's task is in the queue (it is the head right now).  Whether
	// an in-flight result was applied before or after it is read off the queue itself.
	commit := func() {
		if committed {
			return
		}
		if inflight != nil && len(q.items) > 0 {
			if applied := apply(inflight, model); same(q.items[1:], applied) {
				model = applied
				inflight = nil
			}
		}
		model = append([]task.Task{pending}, model...)
		committed = true
		ticksAtCommit = zz.TicksLeft()
	}
	q.WithHandler(func(t task.Task) TaskResult {
		running++
		zz.Assert(running == 1, "one_handler_at_a_time")
		if pending != nil && t == pending {
			commit()
		}
		// the worker applied the previous result before it picked this task
		flush()
		// the handled task is the head of the queue at the moment the worker picked it.
		// The producer may have put its task in front between that pick and this call;
		// the worker cannot have waited for a timer in between (it picks after waiting).
		overtaken := committed && len(model) > 1 && model[0] == pending && t == model[1] && zz.TicksLeft() == ticksAtCommit
		zz.Assert(len(model) > 0 && (t == model[0] || overtaken), "handler_gets_the_head_task")
		if prevFailed && len(model) > 0 && model[0] == prevTask {
			zz.Assert(t == prevTask, "failed_task_is_retried_before_any_other")
			zz.Assert(t.GetFailureCount() == prevFailures+1, "failure_count_incremented_once")
			zz.Assert(lastDelay >= int64(DefaultInitialDelayOnFailedTask), "retry_delay_not_shorter_than_initial")
		}
		// a failed task is not executed again before its back-off delay has elapsed,
		// whatever else happens in the queue meanwhile (measured on the operator's clock)
		if at, ok := failedAt[t]; ok {
			if d, ok := backoffOf[t]; ok {
				zz.Assert(time.Since(at) >= d, "retry_not_before_the_backoff_delay_elapsed")
			}
			delete(failedAt, t)
			delete(backoffOf, t)
		}
		calls++
		if calls > maxCalls {
			q.Stop()
			running--
			return TaskResult{Status: Keep}
		}
		st := TaskStatus(zz.ConcretizeStr(zz.OneOf("status"+strconv.Itoa(calls), string(Success), string(Keep), string(Fail), string(Repeat))))
		res := TaskResult{Status: st}
		prevFailed, prevTask, prevFailures = st == Fail, t, t.GetFailureCount()
		// while the handler runs (without the queue lock) somebody may put a new task in front
		if !withAdder && zz.Bool("head_changes_while_handling"+strconv.Itoa(calls)) {
			fresh++
			x := &task.BaseTask{Id: "x" + strconv.Itoa(fresh)}
			q.AddFirst(x)
			model = append([]task.Task{x}, model...)
		}
		if st == Success || st == Keep {
			// the three result lists are parts of one slice with spare capacity, as a
			// handler that fills one buffer would return them
			hd := newTasks("head" + strconv.Itoa(calls))
			af := newTasks("after" + strconv.Itoa(calls))
			tl := newTasks("tail" + strconv.Itoa(calls))
			all := make([]task.Task, 0, 8)
			all = append(all, hd...)
			all = append(all, af...)
			all = append(all, tl...)
			res.HeadTasks = all[:len(hd)]
			res.AfterTasks = all[len(hd) : len(hd)+len(af)]
			res.TailTasks = all[len(hd)+len(af):]
			// the documented placement is applied to the list model when the worker has applied it
			inflight = &vhResult{t: t, keep: st == Keep, hd: append([]task.Task{}, hd...), af: append([]task.Task{}, af...), tl: append([]task.Task{}, tl...)}
		}
		if st == Fail {
			failedAt[t] = time.Now()
			lastFailed = t
		}
		running--
		return res
	})
	if withAdder {
		adderDone = false
		zz.Go("adder", func() {
			pending = &task.BaseTask{Id: "added"}
			q.AddFirst(pending)
			commit()
			adderDone = true
		})
	}
	q.Start()
	zz.WaitUntil(func() bool {
		return adderDone && (q.Status == "stop" || (len(q.items) == 0 && running == 0 && calls > 0 && q.Status == ""))
	})
	flush()
	if q.Status != "stop" {
		// the queue ran dry before the call budget was used
		zz.Assert(len(model) == 0, "queue_empty_only_when_model_empty")
		q.Stop()
		zz.Reach("end")
		return
	}
	var got []task.Task
	q.Iterate(func(t task.Task) { got = append(got, t) })
	zz.Assert(len(got) == len(model), "queue_matches_list_model")
	for i := 0; i < len(got) && i < len(model); i++ {
		zz.Assert(got[i] == model[i], "queue_matches_list_model")
		zz.Assert(got[i] != nil, "no_nil_slot")
	}
	zz.Reach("end")
}

// VH_C03_independent: a queue whose handler never returns does not keep
// another queue from running its tasks.
func VH_C03_independent() {
	zz.Setenv("QUEUE_ACTIONS_METRICS", "no")
	zz.Ticks(zz.Param("ticks", 2))
	tqs := NewTaskQueueSet()
	tqs.WithContext(context.Background())
	handledB := 0
	var orderB []string
	runningB := 0
	tqs.NewNamedQueue("a", func(t task.Task) TaskResult {
		zz.BlockForever()
		return TaskResult{Status: Success}
	})
	tqs.NewNamedQueue("b", func(t task.Task) TaskResult {
		runningB++
		zz.Assert(runningB == 1, "one_handler_at_a_time")
		zz.Yield()
		orderB = append(orderB, t.GetId())
		handledB++
		runningB--
		return TaskResult{Status: Success}
	})
	tqs.GetByName("a").AddLast(&task.BaseTask{Id: "a0"})
	nb := zz.Len("tasks_b", 1, zz.Param("maxtasks", 2))
	for i := 0; i < nb; i++ {
		tqs.GetByName("b").AddLast(&task.BaseTask{Id: "b" + strconv.Itoa(i)})
	}
	tqs.GetByName("a").Start()
	tqs.GetByName("b").Start()
	if zz.Bool("started_twice") {
		// StartMain() followed by Start(): a started queue ignores further starts
		tqs.GetByName("b").Start()
	}
	zz.WaitUntil(func() bool { return handledB >= nb && runningB == 0 })
	zz.Assert(handledB == nb, "each_task_handled_once")
	for i := 0; i < nb; i++ {
		zz.Assert(orderB[i] == "b"+strconv.Itoa(i), "tasks_run_in_queue_order")
	}
	zz.Assert(tqs.GetByName("a").Length() == 1, "stalled_queue_keeps_its_task")
	zz.Reach("end")
}
