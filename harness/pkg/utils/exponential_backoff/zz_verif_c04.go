package exponential_backoff

// C04 (i): the back-off delay is never shorter than the initial delay and
// never longer than the maximum, for every retry count and random draw.

import (
	"time"

	zz "github.com/flant/shell-operator/pkg/zzverif"
)

func VH_C04_delay() {
	// every retry count up to the bound (a permanently failing hook passes 64 retries
	// after half an hour: shifts and powers of two overflow there)
	maxRetry := zz.Param("maxretry", 12)
	retry := zz.Len("retry_div32", 0, maxRetry/32)*32 + zz.Len("retry_mod32", 0, 31)
	zz.Assume(retry <= maxRetry)
	// as wired by the queue: initial delay 5s, default maximum
	d := CalculateDelay(5*time.Second, retry)
	zz.Assert(d >= 5*time.Second, "delay_not_shorter_than_initial")
	zz.Assert(d <= MaxExponentialBackoffDelay, "delay_not_longer_than_max")
	if retry == 0 {
		zz.Assert(d == 5*time.Second, "first_retry_waits_initial_delay")
	}
	// arbitrary initial <= max; the initial delay is a multiple of the 100ms
	// granularity the function rounds to (finer initial delays are outside the
	// claim: the result is truncated to 100ms by design)
	initMs := zz.IntRange("initial_100ms", 0, 1200) * 100
	maxMs := zz.IntRange("max_ms", 0, 120000)
	zz.Assume(initMs <= maxMs)
	initial := time.Duration(initMs) * time.Millisecond
	max := time.Duration(maxMs) * time.Millisecond
	d2 := CalculateDelayWithMax(initial, max, retry)
	zz.Assert(d2 >= initial, "delay_not_shorter_than_initial")
	zz.Assert(d2 <= max, "delay_not_longer_than_max")
	zz.Reach("end")
}
