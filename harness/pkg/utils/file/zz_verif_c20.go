package utils

// C20 (a): hook discovery over a symbolic directory tree.

import (
	"os"
	"path/filepath"
	"strconv"
	"strings"

	zz "github.com/flant/shell-operator/pkg/zzverif"
)

type vhEntry struct {
	parent int // -1 = hooks root
	name   string
	isDir  bool
	mode   int
	path   string
}

func vhName(tag string) string {
	return zz.OneOf(tag, "hook", "a.yaml", ".hid", "lib", "sub", "b.md", "c.txt", "d.json", "x.sh", "libx", "yaml", "A.JSON", "README.MD")
}

func vhMode(tag string) int {
	return zz.Pick(tag, 6)
}

var vhModes = []os.FileMode{0o644, 0o755, 0o700, 0o010, 0o001, 0o444}

// VHBuildTree creates the tree under a fresh temporary directory and returns
// the hooks root and the entries.  Shared with the hook manager harness.
func VHBuildTree(maxEntries int, rootNames ...string) (string, string, []vhEntry) {
	tmp, err := os.MkdirTemp("", "zzverif")
	zz.Assume(err == nil)
	rootName := "hooks"
	if len(rootNames) > 0 {
		rootName = zz.ConcretizeStr(zz.OneOf("root", rootNames...))
	}
	root := filepath.Join(tmp, rootName)
	zz.Assume(os.Mkdir(root, 0o755) == nil)
	n := zz.Len("entries", 0, maxEntries)
	es := make([]vhEntry, n)
	for i := 0; i < n; i++ {
		si := strconv.Itoa(i)
		e := vhEntry{parent: -1}
		// parent: the root or an earlier directory
		var dirs []int
		for j := 0; j < i; j++ {
			if es[j].isDir {
				dirs = append(dirs, j)
			}
		}
		if len(dirs) > 0 {
			k := zz.Len("parent"+si, 0, len(dirs))
			if k > 0 {
				e.parent = dirs[k-1]
			}
		}
		e.isDir = zz.Bool("isdir" + si)
		if zz.Concretize(vhB(e.isDir)) == 1 {
			e.isDir = true
		} else {
			e.isDir = false
		}
		e.name = vhName("name" + si)
		for j := 0; j < i; j++ {
			if es[j].parent == e.parent {
				zz.Assume(es[j].name != e.name)
			}
		}
		pp := root
		if e.parent >= 0 {
			pp = es[e.parent].path
		}
		e.path = pp + "/" + e.name
		if e.isDir {
			zz.Assume(os.Mkdir(e.path, 0o755) == nil)
		} else {
			e.mode = vhMode("mode" + si)
			zz.Assume(os.WriteFile(e.path, []byte("#!/bin/sh\n"), 0o644) == nil)
			zz.Assume(os.Chmod(e.path, vhModes[e.mode]) == nil)
		}
		es[i] = e
	}
	return tmp, root, es
}

func vhB(b bool) int {
	if b {
		return 1
	}
	return 0
}

// VHIsHook: the documented discovery rule for entry i.
func VHIsHook(es []vhEntry, i int) bool {
	e := es[i]
	if e.isDir {
		return false
	}
	ok := vhModes[e.mode]&0o111 != 0
	ok = zz.And(ok, zz.Not(strings.HasPrefix(e.name, ".")))
	ext := filepath.Ext(e.name)
	ok = zz.And(ok, zz.Not(zz.Or(zz.Or(ext == ".yaml", ext == ".json"), zz.Or(ext == ".md", ext == ".txt"))))
	for p := e.parent; p >= 0; p = es[p].parent {
		ok = zz.And(ok, zz.Not(zz.Or(es[p].name == "lib", strings.HasPrefix(es[p].name, "."))))
	}
	return ok
}

func VHEntryPath(es []vhEntry, i int) string { return es[i].path }

func VH_C20_discovery() {
	tmp, root, es := VHBuildTree(zz.Param("maxentries", 3), "hooks", "lib", ".hooks")
	got, err := RecursiveGetExecutablePaths(root)
	zz.Assert(err == nil, "walk_succeeds")
	want := 0
	for i := range es {
		h := VHIsHook(es, i)
		want += zz.IteInt(h, 1, 0)
		present := false
		for _, g := range got {
			present = zz.Or(present, g == es[i].path)
		}
		zz.Assert(zz.Implies(h, present), "executable_file_is_discovered")
		zz.Assert(zz.Implies(zz.Not(h), zz.Not(present)), "excluded_file_is_not_discovered")
	}
	zz.Assert(len(got) == want, "each_hook_discovered_once")
	os.RemoveAll(tmp)
	zz.Reach("end")
}

// VH_C20_nested: a chain root/d1/.../dk/file with symbolic directory and file
// names: exclusion of `lib` and hidden directories has to hold at every depth,
// which the general tree harness reaches only at its thorough bound.
func VH_C20_nested() {
	tmp, err := os.MkdirTemp("", "zzverif")
	zz.Assume(err == nil)
	root := filepath.Join(tmp, "hooks")
	zz.Assume(os.Mkdir(root, 0o755) == nil)
	depth := zz.Len("depth", 1, zz.Param("maxdepth", 3))
	var es []vhEntry
	p := root
	for i := 0; i < depth; i++ {
		si := strconv.Itoa(i)
		e := vhEntry{parent: i - 1, isDir: true}
		e.name = zz.OneOf("dname"+si, "sub", "lib", ".hid", "libx", "lib.d")
		e.path = p + "/" + e.name
		zz.Assume(os.Mkdir(e.path, 0o755) == nil)
		p = e.path
		es = append(es, e)
	}
	// one file in the deepest directory of the chain
	nd := len(es)
	for i := nd - 1; i < nd; i++ {
		si := strconv.Itoa(i + 1)
		e := vhEntry{parent: i}
		e.name = zz.OneOf("fname"+si, "hook", "a.yaml", ".hid.sh", "lib.sh", "x.yaml.sh", "b.md", "Notes.Txt", "v.YAML")
		e.mode = vhMode("fmode" + si)
		pp := root
		if i >= 0 {
			pp = es[i].path
		}
		e.path = pp + "/" + e.name
		zz.Assume(os.WriteFile(e.path, []byte("#!/bin/sh\n"), 0o644) == nil)
		zz.Assume(os.Chmod(e.path, vhModes[e.mode]) == nil)
		es = append(es, e)
	}
	got, err := RecursiveGetExecutablePaths(root)
	zz.Assert(err == nil, "walk_succeeds")
	want := 0
	for i := range es {
		h := VHIsHook(es, i)
		want += zz.IteInt(h, 1, 0)
		present := false
		for _, g := range got {
			present = zz.Or(present, g == es[i].path)
		}
		zz.Assert(zz.Implies(h, present), "executable_file_is_discovered_at_any_depth")
		zz.Assert(zz.Implies(zz.Not(h), zz.Not(present)), "excluded_file_is_not_discovered_at_any_depth")
	}
	zz.Assert(len(got) == want, "each_hook_discovered_once")
	os.RemoveAll(tmp)
	zz.Reach("end")
}
