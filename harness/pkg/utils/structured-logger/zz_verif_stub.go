package structuredlogger

import (
	"net/http"
	"time"
)

// The request log line is output formatting only (it computes the elapsed
// time in floating point); it gets an empty body under the engine and natively.
//
//verif:stub (*$R/pkg/utils/structured-logger.StructuredLoggerEntry).Write
func vWrite(l *StructuredLoggerEntry, status, bytes int, _ http.Header, elapsed time.Duration, _ interface{}) {
}
