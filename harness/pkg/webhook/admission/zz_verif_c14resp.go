package admission

// C14: the response file of an admission hook.  The real ResponseFromBytes /
// FromReader over a JSON document-stream carrier: a document yields exactly its
// members (a verdict that is not spelled out is a denial: allowed defaults to
// false), an empty or damaged file is an error - never an allowing response.

import (
	zz "github.com/flant/shell-operator/pkg/zzverif"
)

func VH_C14_response() {
	shape := zz.Len("file", 0, 5)
	var docs []map[string]any
	malformedAt, strayAt := -1, -1
	wantErr := false
	wantAllowed, wantMsg := false, ""
	switch shape {
	case 0: // nothing decodable in the file
		wantErr = true
	case 1:
		docs = append(docs, map[string]any{"allowed": true})
		wantAllowed = true
	case 2:
		docs = append(docs, map[string]any{"allowed": false, "message": "no"})
		wantMsg = "no"
	case 3: // the verdict is not spelled out
		docs = append(docs, map[string]any{"message": "forgot the verdict"})
		wantMsg = "forgot the verdict"
	case 4: // an undecodable fragment
		docs = append(docs, map[string]any{"allowed": true})
		malformedAt = 0
		wantErr = true
	case 5: // a stray closing delimiter in front of the document
		docs = append(docs, map[string]any{"allowed": true})
		strayAt = 0
		wantErr = true
	}
	resp, err := ResponseFromBytes(zz.JSONDocsWithStray(malformedAt, strayAt, "}", docs...))
	if wantErr {
		zz.Assert(err != nil && resp == nil, "empty_or_damaged_response_is_an_error")
	} else {
		zz.Assert(err == nil && resp != nil, "well_formed_response_is_read")
		if resp != nil {
			zz.Assert(resp.Allowed == wantAllowed, "allowed_only_when_spelled_out")
			zz.Assert(resp.Message == wantMsg, "message_is_carried")
			zz.Assert(len(resp.Patch) == 0 && len(resp.Warnings) == 0, "nothing_invented")
		}
	}
	zz.Reach("end")
}
