package admission

// Guarded stub of the admission response decoder (encoding/json).
var VResponseFromBytesFn func(data []byte) (*Response, error)

func vRespActive() bool { return VResponseFromBytesFn != nil }

//verif:stub $R/pkg/webhook/admission.ResponseFromBytes if vRespActive
func vResponseFromBytes(data []byte) (*Response, error) { return VResponseFromBytesFn(data) }
