package admission

import "net/http"

// Guarded stub of the admission response decoder (encoding/json).
var VResponseFromBytesFn func(data []byte) (*Response, error)

func vRespActive() bool { return VResponseFromBytesFn != nil }

//verif:stub $R/pkg/webhook/admission.ResponseFromBytes if vRespActive
func vResponseFromBytes(data []byte) (*Response, error) { return VResponseFromBytesFn(data) }

// Guarded stubs of the TLS server / API registration side of the manager.
var VNoServer bool

func vNoServer() bool { return VNoServer }

//verif:stub (*$R/pkg/webhook/admission.WebhookManager).Init if vNoServer
func vInit(m *WebhookManager) error { return nil }

//verif:stub (*$R/pkg/webhook/admission.WebhookManager).Start if vNoServer
func vStart(m *WebhookManager) error { return nil }

// VServe runs the real HTTP handler body (exporter for the unexported method).
func VServe(h *WebhookHandler, w http.ResponseWriter, r *http.Request) { h.serveReviewRequest(w, r) }
