package conversion

// C15 (i): FindConversionChain over symbolic rule graphs.

import (
	"strconv"
	"strings"

	zz "github.com/flant/shell-operator/pkg/zzverif"
)

func vhHasGroup(v string) bool { return strings.Contains(v, "/") }

// vhShort is the version without its group (text after the first slash).
func vhShort(v string) string { return v[strings.Index(v, "/")+1:] }

// vhMatch: the documented "same version" relation - equal, or exactly one of
// the two spellings carries a group and the short versions are equal.
func vhMatch(x, y string) bool {
	return zz.Or(x == y,
		zz.Or(zz.And(zz.And(zz.Not(vhHasGroup(x)), vhHasGroup(y)), vhShort(y) == x),
			zz.And(zz.And(vhHasGroup(x), zz.Not(vhHasGroup(y))), vhShort(x) == y)))
}

// vhExists: is there a sequence of declared rules from `from` to `to`?
func vhExists(rules []Rule, from, to string) bool {
	n := len(rules)
	reach := make([]bool, n)
	link := make([][]bool, n)
	for i := range rules {
		reach[i] = vhMatch(from, rules[i].FromVersion)
		link[i] = make([]bool, n)
		for j := range rules {
			if i != j {
				link[i][j] = vhMatch(rules[i].ToVersion, rules[j].FromVersion)
			}
		}
	}
	for round := 0; round < n; round++ {
		next := make([]bool, n)
		for i := range rules {
			next[i] = reach[i]
			for j := range rules {
				if i != j {
					next[i] = zz.Or(next[i], zz.And(reach[j], link[j][i]))
				}
			}
			next[i] = zz.Bind(next[i])
		}
		reach = next
	}
	ex := false
	for i := range rules {
		ex = zz.Or(ex, zz.And(reach[i], vhMatch(rules[i].ToVersion, to)))
	}
	return ex
}

// vhUnambiguous: over the version spellings that occur in the input the
// "same version" relation is an equivalence (a bare name is never used next to
// two different groups carrying that name).  Precondition of the property: a
// spelling that denotes two different versions has no defined meaning.
func vhUnambiguous(vs []string) bool {
	n := len(vs)
	mt := make([][]bool, n)
	for i := range mt {
		mt[i] = make([]bool, n)
	}
	for i := 0; i < n; i++ {
		mt[i][i] = true
		for j := i + 1; j < n; j++ {
			mt[i][j] = vhMatch(vs[i], vs[j])
			mt[j][i] = mt[i][j]
		}
	}
	ok := true
	for i := 0; i < n; i++ {
		for j := 0; j < n; j++ {
			for k := i + 1; k < n; k++ {
				if i != j && j != k {
					ok = zz.And(ok, zz.Implies(zz.And(mt[i][j], mt[j][k]), mt[i][k]))
				}
			}
		}
	}
	return ok
}

func vhDeclared(rules []Rule, r Rule) bool {
	d := false
	for i := range rules {
		d = zz.Or(d, zz.And(rules[i].FromVersion == r.FromVersion, rules[i].ToVersion == r.ToVersion))
	}
	return d
}

func vhCheckChain(rules []Rule, from, to string, res []Rule, pfx string) {
	if len(res) == 0 {
		zz.Assert(zz.Not(vhExists(rules, from, to)), pfx+"chain_found_when_one_exists")
		return
	}
	zz.Assert(vhMatch(from, res[0].FromVersion), pfx+"chain_starts_at_from")
	zz.Assert(vhMatch(res[len(res)-1].ToVersion, to), pfx+"chain_ends_at_to")
	for i := range res {
		zz.Assert(vhDeclared(rules, res[i]), pfx+"every_step_is_a_declared_rule")
		if i > 0 {
			zz.Assert(vhMatch(res[i-1].ToVersion, res[i].FromVersion), pfx+"steps_are_consecutive")
		}
	}
}

func vhVersion(tag string, pool int) string {
	if pool == 0 {
		return zz.StrIn(tag, zz.Param("vlen", 3), "ab/")
	}
	if pool == 2 {
		return zz.OneOf(tag, "a", "b", "c", "d", "e", "f", "g/d", "g/e")
	}
	// pool 1: no bare name is shared by two groups, so the "same version"
	// relation is an equivalence by construction (g/c and h/c are distinct)
	return zz.OneOf(tag, "a", "b", "ab", "g/a", "g/b", "g/ab", "g/c", "h/c")
}

// VH_C15_chain: arbitrary rule set, one query; optionally a second query whose
// answer must not disturb the first (cache integrity).
func VH_C15_chain() {
	pool := zz.Param("pool", 0)
	n := zz.Len("nrules", 1, zz.Param("maxrules", 3))
	rules := make([]Rule, n)
	cs := NewChainStorage()
	for i := 0; i < n; i++ {
		rules[i] = Rule{FromVersion: vhVersion("from"+strconv.Itoa(i), pool), ToVersion: vhVersion("to"+strconv.Itoa(i), pool)}
		// a conversion rule between identical versions is meaningless and not declared by hooks
		zz.Assume(zz.Not(vhMatch(rules[i].FromVersion, rules[i].ToVersion)))
		cs.Get("crd").Put(rules[i])
	}
	qf, qt := vhVersion("qfrom", pool), vhVersion("qto", pool)
	zz.Assume(zz.Not(vhMatch(qf, qt)))
	all := []string{qf, qt}
	for i := range rules {
		all = append(all, rules[i].FromVersion, rules[i].ToVersion)
	}
	if pool == 0 {
		zz.Assume(vhUnambiguous(all))
	}
	zz.MapOrder(zz.Param("maporder", 0))
	res := cs.FindConversionChain("crd", Rule{FromVersion: qf, ToVersion: qt})
	zz.MapOrder(0)
	first := append([]Rule{}, res...)
	vhCheckChain(rules, qf, qt, res, "")
	if zz.Param("second_query", 0) == 1 {
		qf2, qt2 := vhVersion("q2from", pool), vhVersion("q2to", pool)
		zz.Assume(zz.Not(vhMatch(qf2, qt2)))
		if pool == 0 {
			zz.Assume(vhUnambiguous(append(all, qf2, qt2)))
		}
		zz.MapOrder(zz.Param("maporder", 0))
		res2 := cs.FindConversionChain("crd", Rule{FromVersion: qf2, ToVersion: qt2})
		zz.MapOrder(0)
		vhCheckChain(rules, qf2, qt2, res2, "q2_")
		// the chain handed out earlier must still be what it was
		zz.Assert(len(res) == len(first), "earlier_answer_unchanged")
		for i := range first {
			zz.Assert(zz.And(res[i].FromVersion == first[i].FromVersion, res[i].ToVersion == first[i].ToVersion), "earlier_answer_unchanged")
		}
		res3 := cs.FindConversionChain("crd", Rule{FromVersion: qf, ToVersion: qt})
		vhCheckChain(rules, qf, qt, res3, "requery_")
	}
	zz.Reach("end")
}

// VH_C15_long: a declared linear chain a->b->c->d of fixed length (long enough
// for cached paths to have spare capacity) plus symbolic extra rules and a
// symbolic query; then a second query.  Targets path-cache integrity.
func VH_C15_long() {
	cs := NewChainStorage()
	rules := []Rule{{"a", "b"}, {"b", "c"}, {"c", "d"}}
	extra := zz.Len("nextra", 1, zz.Param("maxextra", 2))
	for i := 0; i < extra; i++ {
		r := Rule{FromVersion: vhVersion("xfrom"+strconv.Itoa(i), 2), ToVersion: vhVersion("xto"+strconv.Itoa(i), 2)}
		zz.Assume(zz.Not(vhMatch(r.FromVersion, r.ToVersion)))
		rules = append(rules, r)
	}
	for _, r := range rules {
		cs.Get("crd").Put(r)
	}
	qf, qt := vhVersion("qfrom", 2), vhVersion("qto", 2)
	zz.Assume(zz.Not(vhMatch(qf, qt)))
	all := []string{qf, qt}
	for i := range rules {
		all = append(all, rules[i].FromVersion, rules[i].ToVersion)
	}
	_ = all // pool 2 is unambiguous by construction (only group g occurs)
	zz.MapOrder(zz.Param("maporder", 0))
	res := cs.FindConversionChain("crd", Rule{FromVersion: qf, ToVersion: qt})
	zz.MapOrder(0)
	vhCheckChain(rules, qf, qt, res, "")
	if zz.Param("second_query", 1) == 1 {
		first := append([]Rule{}, res...)
		qt2 := vhVersion("q2to", 2)
		zz.Assume(zz.Not(vhMatch(qf, qt2)))
		res2 := cs.FindConversionChain("crd", Rule{FromVersion: qf, ToVersion: qt2})
		vhCheckChain(rules, qf, qt2, res2, "q2_")
		zz.Assert(len(res) == len(first), "earlier_answer_unchanged")
		for i := range first {
			zz.Assert(zz.And(res[i].FromVersion == first[i].FromVersion, res[i].ToVersion == first[i].ToVersion), "earlier_answer_unchanged")
		}
	}
	zz.Reach("end")
}
