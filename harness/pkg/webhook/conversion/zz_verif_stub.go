package conversion

import (
	"net/http"

	"k8s.io/apimachinery/pkg/runtime"
)

// Guarded stub of the conversion response decoder (encoding/json).
var VResponseFromBytesFn func(data []byte) (*Response, error)

func vRespActive() bool { return VResponseFromBytesFn != nil }

//verif:stub $R/pkg/webhook/conversion.ResponseFromBytes if vRespActive
func vResponseFromBytes(data []byte) (*Response, error) { return VResponseFromBytesFn(data) }

// Guarded stubs of the TLS server / CRD update side of the manager.
var VNoServer bool

func vNoServer() bool { return VNoServer }

//verif:stub (*$R/pkg/webhook/conversion.WebhookManager).Init if vNoServer
func vInit(m *WebhookManager) error {
	m.Handler = &WebhookHandler{Manager: m}
	return nil
}

//verif:stub (*$R/pkg/webhook/conversion.WebhookManager).Start if vNoServer
func vStart(m *WebhookManager) error { return nil }

// VServe runs the real HTTP handler body (exporter for the unexported method).
func VServe(h *WebhookHandler, w http.ResponseWriter, r *http.Request) { h.serveReviewRequest(w, r) }

// Objects in harness requests are the JSON text {"apiVersion":"<v>"} (the JSON
// decoding of object bodies is outside); ExtractAPIVersions is stubbed by a
// textual extraction, keeping its "unique, in order of first appearance"
// contract.
func VObject(version string) runtime.RawExtension {
	return runtime.RawExtension{Raw: []byte(`{"apiVersion":"` + version + `"}`)}
}

// VObjectVersion is the inverse of VObject.
func VObjectVersion(o runtime.RawExtension) string {
	s := string(o.Raw)
	const pfx, sfx = `{"apiVersion":"`, `"}`
	if len(s) >= len(pfx)+len(sfx) && s[:len(pfx)] == pfx && s[len(s)-len(sfx):] == sfx {
		return s[len(pfx) : len(s)-len(sfx)]
	}
	return ""
}

var VPlainVersions bool

func vPlainVersions() bool { return VPlainVersions }

//verif:stub $R/pkg/webhook/conversion.ExtractAPIVersions if vPlainVersions
func vExtractAPIVersions(objs []runtime.RawExtension) []string {
	res := make([]string, 0)
	for _, o := range objs {
		v := VObjectVersion(o)
		dup := false
		for _, r := range res {
			if r == v {
				dup = true
			}
		}
		if !dup {
			res = append(res, v)
		}
	}
	return res
}
