package validation

import (
	v1 "k8s.io/api/admissionregistration/v1"
)

// Guarded stub of the webhook validator (a vendored copy of Kubernetes API
// validation: reflection-free but several thousand lines; its verdict is a
// symbolic input of the C10 harness).
var VValidateFn func(e *v1.ValidatingWebhookConfiguration) error

func vValidateStubActive() bool { return VValidateFn != nil }

//verif:stub $R/pkg/webhook/validating/validation.ValidateValidatingWebhooks if vValidateStubActive
func vValidateStub(e *v1.ValidatingWebhookConfiguration) error { return VValidateFn(e) }
