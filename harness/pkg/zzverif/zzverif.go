// Package zzverif is the harness runtime of /verif (overlay-only; it is never
// part of the repository).  Under the symbolic engine (gosym) every call into
// this package is intercepted: nondeterministic inputs become solver
// variables, Assume adds to the path condition, Assert becomes an obligation.
// Compiled natively the same functions replay one concrete counterexample /
// witness read from the file named by $VERIF_CEX.
package zzverif

import (
	"encoding/json"
	"fmt"
	"os"
	"strconv"
	"strings"
	"sync"
	"time"

	k8yaml "sigs.k8s.io/yaml"
)

type val struct {
	Tag   string `json:"tag"`
	Name  string `json:"name"`
	Sort  string `json:"sort"`
	Value string `json:"value"`
}

type cexFile struct {
	Harness string         `json:"harness"`
	Values  []val          `json:"values"`
	Params  map[string]int `json:"params"`
	// assertions that are listed findings and failed earlier on the engine's path: the engine
	// walks past them, and so does the replay (they are still printed)
	Tolerate []string `json:"tolerate"`
}

type ReplayState struct {
	mu       sync.Mutex
	cex      cexFile
	pos      int
	Failed   []string
	Out      []string
	counters map[string]int
}

var st = &ReplayState{counters: map[string]int{}}

// AssertFailure is the panic value raised by a failed Assert in replay mode.
type AssertFailure struct{ Tag string }

// InvalidReplay is raised when an Assume is false in replay mode.
type InvalidReplay struct{ Why string }

func LoadReplay(path string) error {
	b, err := os.ReadFile(path)
	if err != nil {
		return err
	}
	st = &ReplayState{counters: map[string]int{}}
	return json.Unmarshal(b, &st.cex)
}

func Harness() string { return st.cex.Harness }

func emit(format string, a ...any) {
	s := fmt.Sprintf(format, a...)
	st.Out = append(st.Out, s)
	fmt.Println("ZZ " + s)
}

func next(tag, sort string) string {
	st.mu.Lock()
	defer st.mu.Unlock()
	if st.pos >= len(st.cex.Values) {
		panic(InvalidReplay{"ran out of values at " + tag})
	}
	v := st.cex.Values[st.pos]
	st.pos++
	// values of engine-internal sources (symbolic clock, math/rand) cannot be
	// injected into the native run; they are skipped
	for (v.Tag == "now" || v.Tag == "rand") && v.Tag != tag && st.pos < len(st.cex.Values) {
		v = st.cex.Values[st.pos]
		st.pos++
	}
	if v.Tag != tag {
		panic(InvalidReplay{fmt.Sprintf("value %d is for tag %q, harness asked for %q", st.pos-1, v.Tag, tag)})
	}
	return v.Value
}

func atoi(s string) int {
	n, err := strconv.ParseInt(s, 10, 64)
	if err != nil {
		panic(InvalidReplay{"bad int " + s})
	}
	return int(n)
}

func Int(tag string) int                                   { return atoi(next(tag, "Int")) }
func IntRange(tag string, lo, hi int) int                  { return atoi(next(tag, "Int")) }
func Bool(tag string) bool                                 { return next(tag, "Bool") == "true" }
func Str(tag string, maxLen int) string                    { return next(tag, "String") }
func StrIn(tag string, maxLen int, alphabet string) string { return next(tag, "String") }
func Pick(tag string, n int) int                           { return atoi(next(tag, "Int")) }
func Len(tag string, lo, hi int) int                       { return atoi(next(tag, "Int")) }
func OneOf(tag string, vals ...string) string              { return vals[atoi(next(tag, "Int"))] }
func Float(tag string, vals ...float64) float64            { return vals[atoi(next(tag, "Int"))] }
func Concretize(v int) int                                 { return v }
func ConcretizeStr(v string) string                        { return v }
func Symbolic() bool                                       { return false }

func Assume(c bool) {
	if !c {
		panic(InvalidReplay{"assumption false"})
	}
}

func Assert(c bool, tag string) {
	if !c {
		for _, t := range st.cex.Tolerate {
			if t == tag {
				emit("ASSERT-KNOWN %s", tag)
				return
			}
		}
		emit("ASSERT-FAIL %s", tag)
		st.Failed = append(st.Failed, tag)
		panic(AssertFailure{tag})
	}
}

func Class(name string, c bool) {}
func Reach(tag string)          { emit("REACH %s", tag) }

func ObserveInt(tag string, v int)    { emit("OBS %s=%d", tag, v) }
func ObserveStr(tag string, v string) { emit("OBS %s=%s", tag, strconv.Quote(v)) }
func ObserveBool(tag string, v bool)  { emit("OBS %s=%v", tag, v) }
func ObserveStrs(tag string, v []string) {
	p := make([]string, len(v))
	for i := range v {
		p[i] = strconv.Quote(v[i])
	}
	emit("OBS %s=[%s]", tag, strings.Join(p, " "))
}
func ObserveInts(tag string, v []int) {
	p := make([]string, len(v))
	for i := range v {
		p[i] = strconv.Itoa(v[i])
	}
	emit("OBS %s=[%s]", tag, strings.Join(p, " "))
}

func Param(name string, def int) int {
	if v, ok := st.cex.Params[name]; ok {
		return v
	}
	return def
}

func MapOrder(mode int) {}

// Setenv sets an environment variable seen by the code under test.
func Setenv(k, v string) { os.Setenv(k, v) }

func And(a, b bool) bool     { return a && b }
func Or(a, b bool) bool      { return a || b }
func Not(a bool) bool        { return !a }
func Implies(a, b bool) bool { return !a || b }

// Bind names a (large) boolean term so that later terms refer to it by name.
func Bind(a bool) bool { return a }
func IteInt(c bool, a, b int) int {
	if c {
		return a
	}
	return b
}
func IteStr(c bool, a, b string) string {
	if c {
		return a
	}
	return b
}

func Count(name string) {
	st.mu.Lock()
	st.counters[name]++
	st.mu.Unlock()
}
func CountGet(name string) int {
	st.mu.Lock()
	defer st.mu.Unlock()
	return st.counters[name]
}
func StubCalls(name string) int { return CountGet("stub:" + name) }

// Thread-model primitives (native replay of schedules is not supported; the
// native versions run the function on a real goroutine).
func Go(name string, f func()) { go f() }
func Yield()                   {}
func Ticks(n int)              {}

// TicksLeft: timer deliveries left in the engine's budget (engine only; 0 natively).
func TicksLeft() int               { return 0 }
func AllowMainBlock()              {}
func BlockForever()                { select {} }
func LastDoneCheckSawClosed() bool { return false }

// TimeoutFired: a timer of one second or more delivered on this path (engine only).
func TimeoutFired() bool { return false }

// SleptSinceLastDoneCheck: the calling thread slept or waited for a timer after its
// last look at a context's cancellation (engine only; false natively).
func SleptSinceLastDoneCheck() bool { return false }
func ThreadID() int                 { return 0 }

// RunReplay runs harness fn under the loaded counterexample and reports how it
// ended: "ok", "assert:<tag>", "panic:<text>" or "invalid:<why>".
func RunReplay(fn func()) (outcome string) {
	defer func() {
		if r := recover(); r != nil {
			switch r := r.(type) {
			case AssertFailure:
				outcome = "assert:" + r.Tag
			case InvalidReplay:
				outcome = "invalid:" + r.Why
			default:
				outcome = fmt.Sprintf("panic:%v", r)
			}
		}
	}()
	fn()
	return "ok"
}

// CopyPayload is engine-only: a typed copy of a JSON carrier payload into *out
// (see pkg/zzverifhttp).  Native code never reaches it.
func CopyPayload(payload any, out any) bool {
	panic("zzverif.CopyPayload is only meaningful under the symbolic engine")
}

// WaitUntil blocks until the (side-effect free) predicate holds; natively it polls.
func WaitUntil(pred func() bool) {
	for !pred() {
		time.Sleep(time.Millisecond)
	}
}

// JSONDocs is a stream of JSON documents given by their key/value pairs, as the
// bytes a hook would write.  malformedAt >= 0 puts an undecodable fragment in
// front of that document.  Under the symbolic engine the result is an opaque
// carrier: json.NewDecoder(bytes.NewReader(b)).Decode(&target) sets exactly the
// fields the next document mentions and leaves the others as they are (the
// behaviour of encoding/json); byte-level syntax is outside the engine's claims.
func JSONDocs(malformedAt int, docs ...map[string]any) []byte {
	var b []byte
	for i, d := range docs {
		if i == malformedAt {
			b = append(b, []byte("{\"operation\": \n")...)
		}
		j, err := json.Marshal(d)
		if err != nil {
			panic(InvalidReplay{"document cannot be encoded: " + err.Error()})
		}
		b = append(b, j...)
		b = append(b, '\n')
	}
	if malformedAt >= len(docs) {
		b = append(b, []byte("{\"operation\": \n")...)
	}
	return b
}

// JSONDocsWithStray is JSONDocs with, in addition, a stray closing delimiter (stray is
// "}" or "]") in front of document strayAt (len(docs): after the last one; -1: none).
// encoding/json reports a syntax error when asked to decode there, and
// Decoder.More() answers false in front of it - the engine's carrier does the same.
func JSONDocsWithStray(malformedAt, strayAt int, stray string, docs ...map[string]any) []byte {
	var b []byte
	for i := 0; i <= len(docs); i++ {
		if i == malformedAt || (i == len(docs) && malformedAt >= len(docs)) {
			b = append(b, []byte("{\"operation\": \n")...)
		}
		if i == strayAt {
			b = append(b, []byte(stray+"\n")...)
		}
		if i == len(docs) {
			break
		}
		j, err := json.Marshal(docs[i])
		if err != nil {
			panic(InvalidReplay{"document cannot be encoded: " + err.Error()})
		}
		b = append(b, j...)
		b = append(b, '\n')
	}
	return b
}

// YAMLDocs is the same stream written as YAML documents separated by "---" (block
// style, so the bytes are not valid JSON).  Under the symbolic engine it is the same
// opaque carrier, read by yaml.NewDecoder(bytes.NewReader(b)).Decode; a JSON decoder
// rejects it at the first document.
func YAMLDocs(docs ...map[string]any) []byte {
	var b []byte
	for i, d := range docs {
		if i > 0 {
			b = append(b, []byte("---\n")...)
		}
		y, err := k8yaml.Marshal(d)
		if err != nil {
			panic(InvalidReplay{"document cannot be encoded: " + err.Error()})
		}
		b = append(b, y...)
	}
	return b
}
