// Package zzverifhttp provides the JSON-over-HTTP carriers of the /verif
// harnesses: a request body and a response writer that hold a typed payload.
// Natively the payload really travels as JSON bytes through encoding/json; the
// symbolic engine models json.NewDecoder(body).Decode / json.NewEncoder(w).Encode
// on these carriers as a typed copy (byte-level encoding is outside its claims).
package zzverifhttp

import (
	"bytes"
	"encoding/json"
	"io"
	"net/http"

	zz "github.com/flant/shell-operator/pkg/zzverif"
)

type Body struct {
	Payload any
	data    []byte
	pos     int
	Closed  bool
}

func JSONBody(v any) *Body {
	b := &Body{Payload: v}
	if !zz.Symbolic() {
		b.data, _ = json.Marshal(v)
	}
	return b
}

func (b *Body) Read(p []byte) (int, error) {
	if b.pos >= len(b.data) {
		return 0, io.EOF
	}
	n := copy(p, b.data[b.pos:])
	b.pos += n
	return n, nil
}

func (b *Body) Close() error { b.Closed = true; return nil }

type Sink struct {
	Payload any
	buf     bytes.Buffer
	hdr     http.Header
	Status  int
	Written bool
}

func NewSink() *Sink { return &Sink{hdr: http.Header{}} }

func (s *Sink) Header() http.Header { return s.hdr }
func (s *Sink) Write(p []byte) (int, error) {
	s.Written = true
	return s.buf.Write(p)
}
func (s *Sink) WriteHeader(code int) { s.Status = code }

// Decode stores the JSON value written to the sink into *out; false when
// nothing (valid) was written.
func (s *Sink) Decode(out any) bool {
	if zz.Symbolic() {
		return zz.CopyPayload(s.Payload, out)
	}
	if s.buf.Len() == 0 {
		return false
	}
	return json.Unmarshal(s.buf.Bytes(), out) == nil
}
