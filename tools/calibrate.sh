#!/bin/bash
# tools/calibrate.sh [tier] [per-harness wall limit in s] [props...]: runs every harness of every registered
# check separately under a wall limit and prints one line per harness - used to choose bounds that run clean.
tier=${1:-thorough}; lim=${2:-900}; shift 2
root=${VERIF_ROOT:-/verif}
cd $root
props="$@"
[ -z "$props" ] && props=$(python3 -c "import json;print(' '.join(sorted(json.load(open('checks.json')))))")
for p in $props; do
  for e in $(python3 -c "import json;print(' '.join(h['entry'] for h in json.load(open('checks.json'))['$p']['harnesses']))"); do
    s=$(date +%s)
    out=$(timeout $lim ./bin/gosym check $p $tier --only $e 2>&1); rc=$?
    t=$(( $(date +%s) - s ))
    echo "== $p $e rc=$rc ${t}s $(echo "$out" | grep -a "^$p $e:" | sed 's/steps=.*wall/wall/' | cut -c1-120)"
    echo "$out" | grep -aE "^(VIOLATION|NO-VERDICT|HARNESS-BROKEN)" | cut -c1-300 | head -4
  done
done
