#!/usr/bin/env python3
"""Regenerates /verif/MANIFEST.json from /verif/checks.json (single source of truth)."""
import json, os
root = os.path.dirname(os.path.dirname(os.path.abspath(__file__)))
checks = json.load(open(os.path.join(root, "checks.json")))
na = json.load(open(os.path.join(root, "not_applicable.json")))
claimed = sorted(checks)
m = {
 "version": 1,
 "setup_cmd": "cd /verif/engine && GOFLAGS=-mod=mod GOPROXY=off go build -o /verif/bin/gosym ./cmd/gosym",
 "hooks": {
  "guard": "verif",
  "enable": "no source hooks: harnesses, the zzverif runtime, fakes/exporters and stub trampolines are injected with go's -overlay (packages.Config.Overlay for the engine, go test -overlay for native replay); /repo carries only fix: commits",
  "baseline_off_cmd": "cd /repo && GOFLAGS=-mod=mod GOPROXY=off go test -vet=off -count=1 -timeout 25m ./...",
  "source_commits": [],
  "add_only": True,
 },
 "engines": [{
  "name": "gosym", "path": "/verif/engine", "serves_properties": claimed,
  "kind_free_text": "bounded symbolic execution of go/ssa of /repo's working tree (own interpreter derived from x/tools ssa/interp); inputs, fault outcomes, map orders and schedules are solver variables; every branch and assertion is decided by z3 4.8.12 (SMT-LIB2: LIA + strings, finite-domain lifting for pool-valued strings); counterexamples are replayed natively (go test -overlay) before being reported; sampled obligations are re-decided by z3 5.1.0 and cvc5",
 }],
 "checks": [],
 "not_applicable": [],
 "notes": "checks.json lists harness entries and bounds per tier; known_findings.json lists fixed/known findings; DESIGN.md explains the technique.",
}
for pid in claimed:
    c = checks[pid]
    m["checks"].append({
     "property_id": pid,
     "quick_cmd": f"/verif/bin/gosym check {pid} quick",
     "thorough_cmd": f"/verif/bin/gosym check {pid} thorough",
     "evidence_file": f"/verif/evidence/{pid}.json",
     "replay_cmd_template": f"/verif/bin/gosym replay {pid} {{path}}",
     "engine": "gosym",
     "level_claimed": {"category": c.get("level", "model_checking"), "text": c["level_text"], "design_ref": c.get("design_ref", f"DESIGN.md §4 {pid}")},
     "level_note": c["level_note"],
     "technique": c.get("technique", "solver-based bounded symbolic execution of go/ssa (z3; counterexamples replayed natively)"),
    })
for pid in sorted(na):
    if pid not in checks:
        m["not_applicable"].append({"property_id": pid, "reason": na[pid]})
json.dump(m, open(os.path.join(root, "MANIFEST.json"), "w"), indent=1)
print("claimed:", claimed, "not_applicable:", [x["property_id"] for x in m["not_applicable"]])
