#!/bin/bash
# tools/mutant.sh <worktree with MUTANT/> <seed id> <property> [more properties...]
# 1. confirms the seeded change in its own scratch worktree (builds, existing suite passes, demo fails with / passes without)
# 2. applies it to /repo, runs the quick checks of the given properties, undoes it
# 3. stores patch, demo and meta.json under /verif/seeded/<seed id>/
set -u
wt=$1; id=$2; shift 2; props="$@"
export GOFLAGS=-mod=mod GOPROXY=off
out=/verif/seeded/$id; mkdir -p $out
cp $wt/MUTANT/patch.diff $out/patch.diff; cp $wt/MUTANT/demo_test.go $out/demo_test.go; cp $wt/MUTANT/README.md $out/README.agent.md 2>/dev/null
demo=$(cd $wt && git status --short | grep '_test.go' | awk '{print $2}' | head -1)
pkgdir=$(dirname $demo)
log=$out/confirm.log; : > $log
cd $wt
echo "== build with change" >> $log; go build ./... >> $log 2>&1; b=$?
echo "== demo with change (must fail)" >> $log; go test -vet=off -count=1 ./$pkgdir/ -run 'Demo|demo|C[0-9][0-9]' >> $log 2>&1; dfail=$?
mv $demo /tmp/demo_$id.go.aside
echo "== existing suite with change (must pass)" >> $log; go test -vet=off -count=1 ./pkg/... 2>&1 | grep -v "^ok\|no test files" >> $log; suite=${PIPESTATUS[0]}
mv /tmp/demo_$id.go.aside $demo
git apply -R MUTANT/patch.diff
echo "== demo without change (must pass)" >> $log; go test -vet=off -count=1 ./$pkgdir/ -run 'Demo|demo|C[0-9][0-9]' >> $log 2>&1; dpass=$?
git apply MUTANT/patch.diff
confirmed=false; [ $b -eq 0 ] && [ $dfail -ne 0 ] && [ $suite -eq 0 ] && [ $dpass -eq 0 ] && confirmed=true
echo "confirmed=$confirmed (build=$b demo_with=$dfail suite=$suite demo_without=$dpass)"
# run the checks against /repo with the change applied (SKIP_CHECKS=1: confirmation only; the checks
# are then run by tools/seeded_regress.sh)
results=""
if [ "${SKIP_CHECKS:-0}" != 1 ]; then
cd /repo
if ! git apply --check $out/patch.diff 2>/dev/null; then echo "patch does not apply to /repo"; exit 2; fi
git apply $out/patch.diff
for p in $props; do
  o=$(/verif/bin/gosym check $p quick 2>&1); rc=$?
  echo "$o" | grep -a "^VIOLATION\|harness=\|NO-VERDICT\|HARNESS-BROKEN" | head -6 > $out/check-$p.txt
  v=$(echo "$o" | grep -ac "^VIOLATION")
  echo "  check $p: rc=$rc violations=$v $(echo "$o" | grep -a 'assertion=' | head -1 | sed 's/.*assertion=\([^ ]*\).*confirmed=\([^ ]*\).*/\1 (\2)/')"
  results="$results{\"property\":\"$p\",\"exit\":$rc,\"violation_lines\":$v},"
done
git checkout -- .
cd /verif && git checkout -- evidence 2>/dev/null
fi
cat > $out/meta.json <<EOM
{
 "id": "$id",
 "confirmed": $confirmed,
 "confirmation": {"build_exit": $b, "demo_with_change_exit": $dfail, "existing_suite_exit": $suite, "demo_without_change_exit": $dpass},
 "demo_test_location": "$demo",
 "checks_run": [${results%,}]
}
EOM
