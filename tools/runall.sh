#!/bin/bash
# Runs every registered check (tier $1, default quick) sequentially; prints a summary.
tier=${1:-quick}
root=${VERIF_ROOT:-/verif}
cd $root
for p in $(python3 -c "import json;print(' '.join(sorted(json.load(open('checks.json')))))"); do
  s=$(date +%s)
  out=$(./bin/gosym check $p $tier 2>&1); rc=$?
  e=$(( $(date +%s) - s ))
  echo "== $p rc=$rc ${e}s"
  echo "$out" | grep -E "^(VIOLATION|NO-VERDICT|KNOWN-FINDING|HARNESS-BROKEN)" | cut -c1-300
done
