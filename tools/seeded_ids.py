#!/usr/bin/env python3
"""Prints "<seed id> <prop,prop>" for the seeds of seeded/index.json selected by id prefixes (argv) and,
when LANE_IDS names a file, by the ids listed in it."""
import json, os, sys
d = json.load(open('/verif/seeded/index.json'))
pre = sys.argv[1:]
only = None
if os.environ.get('LANE_IDS'):
    only = set(open(os.environ['LANE_IDS']).read().split())
for s in d['seeds']:
    if only is not None and s['id'] not in only:
        continue
    if not pre or any(s['id'].startswith(p) for p in pre):
        print(s['id'] + ' ' + ','.join(s['checks']))
