#!/bin/bash
# tools/seeded_regress.sh [seed-id-prefix ...]
# For every seeded change listed in /verif/seeded/index.json (or only those whose id starts with one of the
# given prefixes): apply seeded/<id>/patch.diff to /repo, run the quick checks named in index.json, undo the
# change (git -C /repo checkout -- .), record what each check reported in seeded/<id>/check-<prop>.txt and
# seeded/<id>/meta.json, and finally regenerate seeded/SUMMARY.md.  /verif/evidence is restored afterwards:
# evidence must describe the unchanged tree.
set -u
cd /verif
if [ -n "$(git -C /repo status --porcelain)" ]; then echo "/repo is not clean"; exit 2; fi
ids=$(python3 - "$@" <<'EOF'
import json,sys
d=json.load(open('/verif/seeded/index.json'))
pre=sys.argv[1:]
for s in d['seeds']:
    if not pre or any(s['id'].startswith(p) for p in pre):
        print(s['id']+' '+','.join(s['checks']))
EOF
)
while read -r id props; do
  [ -z "$id" ] && continue
  out=/verif/seeded/$id
  if ! git -C /repo apply --check $out/patch.diff 2>/dev/null; then echo "$id: patch does not apply"; continue; fi
  git -C /repo apply $out/patch.diff
  res=""
  for p in ${props//,/ }; do
    t0=$(date +%s)
    o=$(/verif/bin/gosym check $p quick 2>&1); rc=$?
    t1=$(date +%s)
    echo "$o" | grep -a "^VIOLATION\|harness=\|NO-VERDICT\|HARNESS-BROKEN" | head -6 > $out/check-$p.txt
    v=$(echo "$o" | grep -ac "^VIOLATION")
    a=$(echo "$o" | grep -a '^  harness=' | sed 's/.*harness=\([^ ]*\) assertion=\([^ ]*\).*confirmed=\([^ ]*\).*/\1:\2:\3/' | sort -u | tr '\n' ' ')
    echo "$id check $p: rc=$rc violations=$v $a ($((t1-t0))s)"
    res="$res$p $rc $v $((t1-t0)) $a;"
  done
  git -C /repo checkout -- .
  echo "$res" > $out/.regress
done <<< "$ids"
git -C /verif checkout -- evidence 2>/dev/null
python3 /verif/tools/seeded_summary.py
