#!/bin/bash
# tools/seeded_regress.sh [seed-id-prefix ...]
# For every seeded change listed in /verif/seeded/index.json (or only those whose id starts with one of the
# given prefixes): apply seeded/<id>/patch.diff to the lane's tree, run the quick checks named in index.json,
# undo the change (git checkout -- .), record what each check reported in seeded/<id>/check-<prop>.txt and
# seeded/<id>/.regress, and finally regenerate seeded/SUMMARY.md.  /verif/evidence is restored afterwards:
# evidence must describe the unchanged tree.
#
# Lanes.  By default the tree is /repo itself and the verification root is /verif.  To get through all seeds
# in reasonable time several lanes can run side by side: LANE_REPO=<scratch worktree of /repo at HEAD>
# LANE_ROOT=<copy of /verif> run the same commands against that worktree (VERIF_REPO/VERIF_ROOT); results
# still go to /verif/seeded/<id>/.  LANE_IDS=<file> restricts a lane to the ids listed in the file.
set -u
repo=${LANE_REPO:-/repo}
root=${LANE_ROOT:-/verif}
cd /verif
if [ -n "$(git -C $repo status --porcelain)" ]; then echo "$repo is not clean"; exit 2; fi
ids=$(python3 /verif/tools/seeded_ids.py "$@")
while read -r id props; do
  [ -z "$id" ] && continue
  out=/verif/seeded/$id
  if ! git -C $repo apply --check $out/patch.diff 2>/dev/null; then echo "$id: patch does not apply"; continue; fi
  git -C $repo apply $out/patch.diff
  res=""
  for p in ${props//,/ }; do
    t0=$(date +%s)
    o=$(VERIF_REPO=$repo VERIF_ROOT=$root $root/bin/gosym check $p quick 2>&1); rc=$?
    t1=$(date +%s)
    echo "$o" | grep -a "^VIOLATION\|harness=\|NO-VERDICT\|HARNESS-BROKEN" | sed "s|$root/out|/verif/out|" | head -6 > $out/check-$p.txt
    v=$(echo "$o" | grep -ac "^VIOLATION")
    a=$(echo "$o" | grep -a '^  harness=' | sed 's/.*harness=\([^ ]*\) assertion=\([^ ]*\).*confirmed=\([^ ]*\).*/\1:\2:\3/' | sort -u | tr '\n' ' ')
    echo "$id check $p: rc=$rc violations=$v $a ($((t1-t0))s)"
    res="$res$p $rc $v $((t1-t0)) $a;"
  done
  git -C $repo checkout -- .
  echo "$res" > $out/.regress
done <<< "$ids"
if [ "$root" = /verif ]; then git -C /verif checkout -- evidence 2>/dev/null; fi
[ -z "${LANE_IDS:-}" ] && python3 /verif/tools/seeded_summary.py
exit 0
