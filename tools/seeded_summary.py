#!/usr/bin/env python3
"""Regenerates /verif/seeded/<id>/meta.json and /verif/seeded/SUMMARY.md from seeded/index.json (hand-written
description), the confirmation recorded by tools/mutant.sh and the check results recorded by
tools/seeded_regress.sh (<id>/.regress)."""
import json, os, re
root = '/verif/seeded'
idx = json.load(open(os.path.join(root, 'index.json')))
rows = []
for s in idx['seeds']:
    d = os.path.join(root, s['id'])
    mpath = os.path.join(d, 'meta.json')
    old = json.load(open(mpath)) if os.path.exists(mpath) else {}
    checks = old.get('checks', [])
    rp = os.path.join(d, '.regress')
    if os.path.exists(rp):
        checks = []
        for part in open(rp).read().strip().split(';'):
            f = part.split()
            if len(f) < 4:
                continue
            hits = []
            for h in f[4:]:
                x = h.split(':')
                if len(x) == 3:
                    hits.append({'harness': x[0], 'assertion': x[1], 'counterexample_confirmed_by': x[2]})
            checks.append({'property': f[0], 'command': '/verif/bin/gosym check %s quick' % f[0], 'exit': int(f[1]),
                           'violation_lines': int(f[2]), 'seconds': int(f[3]), 'caught_by': hits})
    conf = old.get('confirmation', {})
    meta = {
        'id': s['id'],
        'property': s['property'],
        'site': s['site'],
        'change': s['change'],
        'needs_to_manifest': s['needs'],
        'confirmed': old.get('confirmed', False),
        'confirmation': conf,
        'confirmation_commands': [
            'GOFLAGS=-mod=mod GOPROXY=off go build ./...   (scratch worktree, change applied)',
            'go test -vet=off -count=1 ./<demo pkg>/ -run Demo   (change applied: must fail)',
            'go test -vet=off -count=1 ./pkg/...   (change applied, demo test set aside: must pass)',
            'go test -vet=off -count=1 ./<demo pkg>/ -run Demo   (change reverted: must pass)',
        ],
        'demo_test_location': old.get('demo_test_location', ''),
        'checks_procedure': 'git -C <tree> apply seeded/%s/patch.diff; gosym check <prop> quick; git -C <tree> checkout -- .   (<tree> = /repo, or - when tools/seeded_regress.sh runs several lanes side by side - a scratch worktree of /repo at the same commit passed as VERIF_REPO)' % s['id'],
        'checks': checks,
        'first_result': s.get('first_result', ''),
        'strengthening': s.get('strengthening', ''),
    }
    json.dump(meta, open(mpath, 'w'), indent=1)
    caught = [c for c in checks if c['exit'] == 1 and c['violation_lines'] > 0]
    rows.append((s, meta, caught, checks))

with open(os.path.join(root, 'SUMMARY.md'), 'w') as f:
    f.write('# Seeded changes\n\n')
    f.write('Each directory holds one change to flant/shell-operator written by a fresh sub-agent that saw only the\n'
            'property text and a scratch worktree: `patch.diff`, the agent\'s demonstration (`demo_test.go`,\n'
            '`README.agent.md`), `confirm.log` (my own confirmation in the scratch worktree: builds, the existing suite\n'
            'passes, the demonstration fails with the change and passes without) and `meta.json`.  None of them is\n'
            'committed to /repo.  `tools/seeded_regress.sh` re-applies each one to /repo, runs the quick checks and\n'
            'restores /repo; the table is generated from its last run.\n\n')
    f.write('| seed | property | what it needs to manifest | caught by (harness : assertion : how the counterexample was confirmed) | other checks run | first result |\n')
    f.write('|---|---|---|---|---|---|\n')
    for s, meta, caught, checks in rows:
        cb = '<br>'.join('%s: ' % c['property'] + ', '.join('%s : %s : %s' % (h['harness'], h['assertion'], h['counterexample_confirmed_by']) for h in c['caught_by']) + ' (%ds)' % c.get('seconds', 0) for c in caught) or '**not caught**'
        other = ', '.join('%s exit %d' % (c['property'], c['exit']) for c in checks if c not in caught) or '-'
        fr = s.get('first_result', '')
        if s.get('strengthening'):
            fr += '; strengthened: ' + s['strengthening']
        f.write('| %s | %s | %s | %s | %s | %s |\n' % (s['id'], s['property'], s['needs'], cb, other, fr))
    n = len(rows)
    k = sum(1 for r in rows if r[2])
    f.write('\n%d of %d seeded changes are reported by at least one registered quick check.\n' % (k, n))
