#!/usr/bin/env python3
"""Rewrites the table between the seeded-table markers of DESIGN.md from seeded/index.json and the meta.json files."""
import json, os
root='/verif'
idx=json.load(open(root+'/seeded/index.json'))
rows=['| seed | checks run | reported by (after strengthening) | as first evaluated | strengthening |','|---|---|---|---|---|']
for s in idx['seeds']:
    mp=os.path.join(root,'seeded',s['id'],'meta.json')
    caught=[]
    if os.path.exists(mp):
        m=json.load(open(mp))
        for c in m.get('checks',[]):
            if c.get('exit')==1 and c.get('violation_lines',0)>0:
                hs=sorted({h['harness']+':'+h['assertion'] for h in c.get('caught_by',[])})
                caught.append(c['property']+' '+', '.join(hs))
    fr=s.get('first_result','')
    rows.append('| %s | %s | %s | %s | %s |' % (s['id'], ', '.join(s['checks']), '; '.join(caught) or '?', 'missed' if fr.startswith('missed') else 'caught', s.get('strengthening') or '-'))
p=root+'/DESIGN.md'
t=open(p).read()
a=t.index('<!-- seeded-table-begin -->')+len('<!-- seeded-table-begin -->')
b=t.index('<!-- seeded-table-end -->')
t=t[:a]+'\n'+'\n'.join(rows)+'\n'+t[b:]
open(p,'w').write(t)
